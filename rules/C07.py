"""C07 - fixed_vector behaves as a bounded sequence, including copy, move and assignment.

R07.1 (A7+A1) the three operator= return fixed_vector&, write size_, capacity_ and data_ of *this on every normal exit
      (directly, through a member swap or a helper) and return *this.
R07.2 (A1) copy / move constructor initialise every state field (size_, capacity_, data_) from the source (or delegate).
R07.3 (A7) rbegin/rend & co are typed as reverse iterators (type-level witness); forward accessors as plain iterators.
R07.4 (A7) must-compile: explicit instantiation for int and std::string, every member template, move-only element type.
R07.5 (A4/A1) erase shifts the tail left by one: writes data_[k] from data_[k+1] for ascending k from the erased index
      while k + 1 < size_, then decrements; appends write index size_ then increment (R06.5, re-evaluated here);
      positional emplace shifts the tail right before filling the slot (insert-before).
"""
import os
import re

from sa import ir, cfg, witness
from sa.ir import fmt, walk, short
from sa.callgraph import tree_effects, lvalue_root
from sa.extract import VERIF
from .common import callgraph, elem_calls
from . import C06

FV = C06.FV
STATE = ("size_", "capacity_", "data_")


def writes_state(prog, cg, f, e, depth=0):
    """state fields of *this written by element e (directly, via std::swap with a member, or via a helper on this)"""
    out = set()
    x = e.get("expr")
    if e["kind"] == "init" and e.get("field"):
        out.add(short(e["field"]))
    if x is None:
        return out
    for eff, lv, n in tree_effects(x, into_sc=False):
        if eff in ("write", "maybe_write") and lv is not None:
            kind, key, _ = lvalue_root(lv)
            if kind == "field" and key[1] == "this" and short(key[0]) in STATE:
                out.add(short(key[0]))
    for n in walk(x, into_sc=False):
        if n.get("k") == "call" and short(n.get("name") or "") in ("swap", "exchange"):
            for a in n.get("args", []):
                au = ir.unwrap(a)
                if isinstance(au, dict) and au.get("k") == "member" and C06.is_this(au.get("base")) and short(au["field"]) in STATE:
                    out.add(short(au["field"]))
        if n.get("k") == "call" and depth < 2 and (C06.is_this(n.get("this")) if n.get("this") is not None else n.get("dep")):
            nm = short(n.get("name") or "")
            for g in prog.methods_of(FV):
                if g.name == nm and g.has_cfg and g.is_pattern and g.id != f.id and nm not in ("begin", "end", "size", "capacity"):
                    must = None
                    for fld in STATE:
                        ok, _ = cfg.must_happen_before_exit(g, lambda el, fld=fld: fld in writes_state(prog, cg, g, el, depth + 1))
                        if ok:
                            out.add(fld)
    return out


def run(ctx):
    prog = ctx.prog
    cg = callgraph(ctx)
    for r, d in (("R07.1", "assignment operators modify and return *this"), ("R07.2", "copy/move construction transfers every state field"),
                 ("R07.3", "iterator accessor types"), ("R07.4", "all documented members compile for ordinary and move-only element types"),
                 ("R07.5", "shape of erase / append / positional emplace")):
        ctx.rule(r, d)
    cls = prog.cls(FV)
    if not ctx.anchor("R07.1", FV, cls is not None):
        return
    methods = [f for f in prog.methods_of(FV) if f.has_cfg and f.is_pattern]
    ctx._fv_method_names = {f.name for f in methods}

    # ---- witnesses (R07.1 types, R07.3, R07.4)
    rule_of = lambda t: "R07.4" if (t or "").startswith("m") else ("R07.1" if t in ("w1", "w2", "w3") else "R07.3")
    wp = os.path.join(VERIF, "witness", "tl_C07.cpp")
    witness.apply(ctx, rule_of, wp)
    if ctx.tier == "thorough":
        witness.apply(ctx, rule_of, wp, compiler="g++", label="g++ gnu++17")
        witness.apply(ctx, rule_of, wp, std="gnu++14", label="clang++ gnu++14")

    # ---- R07.1
    assigns = [f for f in methods if f.op == "="]
    ctx.need("R07.1", "assignment operators", len(assigns), 3)
    for f in assigns:
        tag = C06._sig(f)
        src = f.params[0]["name"] if f.params else "v"

        def not_self(b, to, lab, f=f, src=src):
            # the self-assignment path (`this != &v` false / `this == &v` true) legitimately changes nothing
            c = f.term(b).get("cond")
            if c is None:
                return True
            s = fmt(c)
            if s in ("(this != (&%s))" % src, "((&%s) != this)" % src):
                return lab != "false"
            if s in ("(this == (&%s))" % src, "((&%s) == this)" % src):
                return lab != "true"
            return True

        def edge_filter(fld):
            # a path on which `fld == src.fld` was established by the branch taken needs no write of fld
            def ok_edge(b, to, lab):
                if not not_self(b, to, lab):
                    return False
                c = f.term(b).get("cond")
                if c is None:
                    return True
                c2, neg = cfg.strip_not(c)
                bo = ir.as_binop(ir.unwrap(c2))
                if bo and bo[0] in ("==", "!="):
                    sides = {fmt(ir.unwrap(bo[1])), fmt(ir.unwrap(bo[2]))}
                    if sides in ({fld, "%s.%s" % (src, fld)}, {fld, "%s.%s()" % (src, fld.rstrip("_"))}, {"%s()" % fld.rstrip("_"), "%s.%s()" % (src, fld.rstrip("_"))}):
                        eq_lab = "true" if (bo[0] == "==") != neg else "false"
                        return lab != eq_lab
                return True
            return ok_edge

        def copies_in_place(e):
            """elements copied/moved into the existing storage: std::copy/move/copy_n(..., begin()/data_.get()) or data_[i] = src..."""
            if e.get("expr") is None:
                return False
            for n in walk(e["expr"], into_sc=False):
                if n.get("k") == "call" and (n.get("name") or "") in ("std::copy", "std::move", "std::copy_n", "std::move_backward", "std::copy_backward", "std::uninitialized_copy") and len(n.get("args", [])) == 3:
                    d = fmt(ir.unwrap(n["args"][2]))
                    if d in ("begin()", "data_.get()", "(&data_[0])", "this->begin()", "end()"):
                        return True
            return False

        for fld in STATE:
            ok, path = cfg.must_happen_before_exit(f, lambda e, fld=fld: fld in writes_state(prog, cg, f, e) or (fld == "data_" and copies_in_place(e)), edge_ok=edge_filter(fld))
            ctx.check(ok, "R07.1", f, "assigns-%s:%s" % (fld, tag), "operator= can return without changing %s of *this (the left-hand side keeps its old contents)" % fld, f)
        rets = [ir.unwrap(e["expr"].get("e")) for _, _, e in f.roots() if e["expr"].get("k") == "return"]
        okr = bool(rets) and all(fmt(r) == "(*this)" for r in rets)
        ctx.check(okr, "R07.1", f, "returns-this:" + tag, "operator= returns %s instead of *this" % [fmt(r)[:50] for r in rets], f)

    # ---- R07.2
    ctors = [f for f in methods if f.kind == "ctor" and (f.flags.get("copy_ctor") or f.flags.get("move_ctor"))]
    n_default = 0
    for op in ("copy_ctor", "move_ctor"):
        sp = cls.get("special", {}).get(op)
        if sp and not sp.get("deleted") and not sp.get("user_provided") and (sp.get("defaulted") or sp.get("implicit")) and not any(f.flags.get(op) for f in ctors):
            n_default += 1
            if op == "move_ctor":
                ctx.bad("R07.2", FV, "move-leaves-source-empty:move_ctor=default", "the compiler-generated move constructor copies size_ and does not reset the source's: after `w(std::move(v))` the source still "
                        "reports its old size over null storage - the sequence is duplicated in length, not transferred (move assignment builds on this constructor)", "%s:%d" % (cls["file"], cls["line"]))
                ctx.ok("R07.2", FV, "transfers-all-fields:%s=default" % op, "compiler-generated member-wise move transfers size_, capacity_ and data_ (the state of the source afterwards is C06's R06.7)", "%s:%d" % (cls["file"], cls["line"]))
            else:
                ctx.bad("R07.2", FV, "transfers-all-fields:%s=default" % op, "a compiler-generated copy constructor cannot copy the unique_ptr storage", "%s:%d" % (cls["file"], cls["line"]))
    ctx.need("R07.2", "copy/move constructors", len(ctors) + n_default, 2)
    for f in ctors:
        tag = C06._sig(f)
        src = f.params[0]["name"]
        inits = {}
        delegate = None
        for _, _, e in f.all_elems():
            if e["kind"] == "init":
                if e.get("field"):
                    inits[short(e["field"])] = e["expr"]
                elif e.get("delegating") or (e.get("base") or "").startswith("fixed_vector"):
                    delegate = e["expr"]
        if delegate is not None:
            s = fmt(delegate)
            ctx.check(src in s and ("%s.capacity_" % src in s or "%s.capacity()" % src in s), "R07.2", f, "delegates-with-source:" + tag,
                      "the delegating constructor call %s does not pass the source's capacity and contents" % s, f)
            continue
        if f.flags.get("move_ctor"):
            # the source's size is set to 0 on every path (the sequence moves, its length is not duplicated)
            def zeroes_src(e, src=src):
                x = e.get("expr")
                if x is None:
                    return False
                for n in walk(x, into_sc=False):
                    if n.get("k") == "bin" and n["op"] == "=" and fmt(ir.unwrap(n["l"])) == "%s.size_" % src and fmt(ir.unwrap(n["r"])) == "0":
                        return True
                    if n.get("k") == "call" and short(n.get("name") or "") in ("swap", "exchange") and "%s.size_" % src in fmt(n):
                        return True
                    if n.get("k") == "call" and short(n.get("name") or "") in ("clear",) and fmt(ir.unwrap(n.get("this") or {})) == src:
                        return True
                return False
            okz, pz = cfg.must_happen_before_exit(f, zeroes_src)
            ctx.check(okz, "R07.2", f, "move-leaves-source-empty:" + tag, "the move constructor can finish (B%s) without setting %s.size_ to 0: the source still reports its old size over storage it no longer owns"
                      % ("->B".join(map(str, pz or [])), src), f)
        body_writes = set()
        for bid, i, e in f.roots():
            body_writes |= writes_state(prog, cg, f, e)
            # x = v.x in the body
        for fld in STATE:
            ex = inits.get(fld)
            from_src = ex is not None and re.search(r"\b%s\.%s\b|\b%s\.%s\(\)" % (src, fld, src, fld.rstrip("_")), fmt(ex)) is not None
            in_body = False
            for bid, i, e in f.roots():
                for n in walk(e["expr"], into_sc=False):
                    if n.get("k") == "bin" and n["op"] == "=" and fmt(n["l"]) == fld and re.search(r"\b%s\.%s\b" % (src, fld), fmt(n["r"])):
                        in_body = True
                    if n.get("k") == "call" and short(n.get("name") or "") == "swap" and fld in fmt(n) and "%s.%s" % (src, fld) in fmt(n):
                        in_body = True
            ctx.check(from_src or in_body, "R07.2", f, "transfers-%s:%s" % (fld, tag),
                      "the %s constructor does not take %s from the source: the new container %s" % (
                          "move" if f.flags.get("move_ctor") else "copy", fld, "reports size 0 although it owns the elements" if fld == "size_" else "is inconsistent"), f)

    # ---- R07.8: which operator= does `dst = src` run? (an added assignment template with a forwarding-reference parameter is an
    # exact match for a non-const lvalue and takes ordinary copy assignments away from the copy assignment operator)
    ctx.rule("R07.8", "overload-resolution witness: assigning a fixed_vector lvalue / const lvalue / rvalue / braced list selects the copy, copy, move and initializer_list assignment operators")
    from .common import chosen
    wf = [f for f in prog.find("vwit::fixed_vector_assignments") if f.has_cfg]
    if ctx.anchor("R07.8", "vwit::fixed_vector_assignments", bool(wf)):
        want = ["copy_assign", "copy_assign", "move_assign", "initializer_list"]
        sel = [c0 for c0 in chosen(prog, wf[0]) if c0[2] == "assign"]
        ctx.need("R07.8", "assignments in the witness", len(sel), 4)
        for (ln, text, kind, g, n), w in zip(sel, want):
            if g is None:
                ctx.broken("R07.8", wf[0], "assignment-selects:" + text, "the selected operator= is not in the facts", (wf[0], ln))
                continue
            pt = (g.params[0].get("type") or "") if g.params else ""
            ok = (g.flags.get(w) is True) if w != "initializer_list" else ("initializer_list" in pt)
            tmpl = g.flags.get("instantiation_of") and prog.fn(g.flags["instantiation_of"]) is not None and any(p0.get("fwd") for p0 in prog.fn(g.flags["instantiation_of"]).params)
            ctx.check(ok and not tmpl, "R07.8", wf[0], "assignment-selects:" + text,
                      "`%s` runs %s instead of the %s assignment operator: ordinary assignments are rerouted through an overload that need not yield an equal container (capacity, contents)"
                      % (text, g.id[:120], w.replace("_", " ")), (wf[0], ln), why_ok=short(g.qual) + "(" + pt + ")")
    # ---- R07.11: which constructor builds the temporary inside the assignment operators - in EVERY instantiation, also for an element type
    # that converts from anything (braces prefer the initializer_list constructor whenever the braced things convert to the element type)
    ctx.rule("R07.11", "in every instantiation of the three assignment operators a temporary container is built by the copy constructor / the move constructor / the (capacity, list) constructor - "
                       "never by the initializer_list<value_type> constructor from the whole source")
    ntmp = 0
    for f in sorted(prog.fns.values(), key=lambda g: g.id):
        if not (f.cls or "").startswith(FV + "<") or f.op != "=" or not f.has_cfg or f.is_pattern or not f.params:
            continue
        kind = "copy" if f.flags.get("copy_assign") else ("move" if f.flags.get("move_assign") else ("list" if "initializer_list" in (f.params[0].get("type") or "") else None))
        if kind is None:
            continue
        for _, _, e in f.roots():
            x = e["expr"]
            if x.get("k") != "decl":
                continue
            for v in x.get("vars", []):
                if "fixed_vector" not in (v.get("type") or ""):
                    continue
                init = ir.unwrap(v.get("init")) if v.get("init") is not None else None
                while isinstance(init, dict) and init.get("k") == "cast":
                    init = ir.unwrap(init["e"])
                if not (isinstance(init, dict) and init.get("k") == "construct"):
                    continue
                c = prog.fn(init.get("ctor")) if init.get("ctor") else None
                ntmp += 1
                if c is None:
                    ctx.broken("R07.11", f, "temporary-built-by:%s:%s" % (kind, f.flags.get("template_args", f.cls)), "the constructor selected for `%s` is not in the facts" % v["name"], (f, e.get("ln")))
                    continue
                pts = [(p0.get("type") or "") for p0 in c.params]
                if kind == "copy":
                    ok = bool(c.flags.get("copy_ctor"))
                elif kind == "move":
                    ok = bool(c.flags.get("move_ctor"))
                else:
                    ok = len(pts) == 2 and "initializer_list" in pts[1] and "initializer_list" not in pts[0]
                ctx.check(ok, "R07.11", f, "temporary-built-by:%s:%s" % (kind, (f.cls or "")[len(FV):]),
                          "in %s the temporary `%s` is built by %s - for this element type the braces select the initializer_list constructor: the assigned container holds the source "
                          "(or the list's size and the list) as elements instead of the source's elements" % (f.id[:110], v["name"], c.id[:130]), (f, e.get("ln")), why_ok=c.id[:90])
    ctx.need("R07.11", "temporaries in the instantiated assignment operators", ntmp, 6)
    # the same question put to the compiler the library is built with (clang and g++ disagree on `T tmp{ v }` for such element types)
    wg = os.path.join(VERIF, "witness", "tl_C07_gxx.cpp")
    rg = witness.apply(ctx, lambda t: "R07.11", wg, compiler="g++", label="g++ gnu++17")
    ctx.need("R07.11", "g++ witness cells", len(rg["tags"]), 7)
    # ---- R07.6: emplace builds the element the way std containers do - direct-initialisation from the forwarded arguments.
    # List-initialisation prefers an initializer_list constructor: emplace_back(3, 'x') on strings would store "\x03x", not "xxx".
    ctx.rule("R07.6", "emplace/emplace_back construct the element by direct-initialisation T(args...); a range insert walks its source exactly once")
    nem = 0
    for f in methods:
        if f.name not in ("emplace", "emplace_back") or not f.is_pattern:
            continue
        for _, _, e in f.roots():
            for n in walk(e["expr"]):
                if n.get("k") == "construct" and any(isinstance(a, dict) and (a.get("k") == "pack" or "..." in fmt(a)) for a in n.get("args", [])):
                    nem += 1
                    ctx.check(not n.get("list"), "R07.6", f, "element-direct-initialised:" + C06._sig(f),
                              "%s builds the new element with list-initialisation %s: for element types with an initializer_list constructor the forwarded arguments become the list's contents "
                              "(the element differs from what emplace on a std container yields)" % (f.name, fmt(n)), (f, n.get("ln")), why_ok=fmt(n))
        # handing the forwarded pack on to the sibling emplace member leaves the construction to that member
        for _, _, e in f.roots():
            for n in walk(e["expr"]):
                if n.get("k") == "call" and short(n.get("name") or "") in ("emplace", "emplace_back") and short(n.get("name") or "") != f.name \
                        and (n.get("this") is None or C06.is_this(n.get("this"))) and any("..." in fmt(a) or (isinstance(a, dict) and a.get("k") == "pack") for a in n.get("args", [])):
                    nem += 1
                    ctx.ok("R07.6", f, "element-direct-initialised:" + C06._sig(f), "construction delegated: " + fmt(n)[:60], (f, n.get("ln")))
    ctx.need("R07.6", "element constructions from the forwarded pack", nem, 2)
    # a forwarding-reference parameter keeps the caller's value category: an lvalue argument (`v.emplace_back(v[0])`, the same
    # named value appended twice) must still hold its value afterwards, so the parameter is passed on with std::forward only
    nfw = 0
    for f in methods:
        if not f.is_pattern:
            continue
        for p0 in f.params:
            if not p0.get("fwd"):
                continue
            tn = re.sub(r"\W.*", "", p0.get("type") or "")
            if sum(1 for q in f.params if re.search(r"\b%s\b" % re.escape(tn), q.get("type") or "")) != 1:
                continue  # the parameter's type is deduced from another argument as well: lvalues cannot bind
            nfw += 1
            moved = [(n.get("ln"), fmt(n)) for _, _, e in f.all_elems() if e.get("expr") is not None for n in walk(e["expr"])
                     if n.get("k") == "call" and (n.get("name") or "") in ("std::move", "move", "std::make_move_iterator", "make_move_iterator", "std::move_backward", "std::move_if_noexcept")
                     and any(isinstance(r, dict) and r.get("k") == "ref" and r.get("decl") == "param:" + p0["name"] for a in n.get("args", []) for r in walk(a))]
            moved += [(n.get("ln"), fmt(n)) for _, _, e in f.all_elems() if e.get("expr") is not None for n in walk(e["expr"])
                      if n.get("k") == "construct" and "move_iterator" in (n.get("name") or n.get("type") or "")
                      and any(isinstance(r, dict) and r.get("k") == "ref" and r.get("decl") == "param:" + p0["name"] for a in n.get("args", []) for r in walk(a))]
            ctx.check(not moved, "R07.6", f, "forwarded-not-moved:%s:%s" % (C06._sig(f), p0["name"]),
                      "%s passes its forwarding-reference parameter `%s` on with %s: an lvalue argument is moved from - `v.%s(v[0])` empties an element of the container itself and appending the "
                      "same named value twice stores an empty second element" % (f.name, p0["name"], moved[0][1] if moved else "", f.name), (f, moved[0][0] if moved else None), why_ok="only forwarded")
    ctx.need("R07.6", "forwarding-reference parameters of fixed_vector members", nfw, 2)
    # the bookkeeping members are as wide as what the constructors are given
    ctx.rule("R07.9", "size_ / capacity_ are stored at least as wide as the constructor's capacity parameter (a capacity of 2^32 or more is not reduced modulo 2^32)")
    # ---- R07.10: what comes in by rvalue reference is a SOURCE: it may be moved from, never assigned to. `std::swap(a, b)` in place of
    # `a = std::move(b)` hands the destination slot's stale content back into b - invisible for a temporary, but b can be a live element of
    # the same container (`v.insert(std::move(v[i]))`, the shift in erase)
    ctx.rule("R07.10", "an rvalue-reference parameter of fixed_vector's functions is only consumed (std::move / std::forward / read), never the target of an assignment, swap or exchange")
    nrv = 0
    seen_rv = set()
    for g in sorted(prog.fns.values(), key=lambda x: x.id):
        if not g.has_cfg or not g.file.endswith("lang/fixed_vector.hpp") or (g.file, g.line) in seen_rv:
            continue
        rv = {p0["name"] for p0 in g.params if (p0.get("type") or "").rstrip().endswith("&&") and not p0.get("fwd")}
        rv |= {p0["name"] for p0 in g.params if (p0.get("type") or "").rstrip().endswith("&&")}
        if not rv:
            continue
        seen_rv.add((g.file, g.line))
        nrv += 1
        bad = None
        for _, _, e in g.roots():
            for n in walk(e["expr"]):
                if not isinstance(n, dict):
                    continue
                tgt = None
                if n.get("k") == "bin" and n.get("op") in ("=", "+=", "-="):
                    tgt = [n["l"]]
                elif n.get("k") == "call" and n.get("op") == "=":
                    tgt = [n.get("this") if n.get("this") is not None else (n.get("args") or [None])[0]]
                elif n.get("k") == "call" and short(n.get("name") or "") in ("swap", "iter_swap"):
                    tgt = list(n.get("args", [])) + ([n["this"]] if n.get("this") is not None else [])
                elif n.get("k") == "call" and short(n.get("name") or "") == "exchange" and n.get("args"):
                    tgt = [n["args"][0]]
                for t0 in tgt or []:
                    t1 = ir.unwrap(t0) if t0 is not None else None
                    if isinstance(t1, dict) and t1.get("k") == "ref" and t1.get("decl", "").startswith("param:") and t1["decl"][6:] in rv:
                        bad = (n, t1["decl"][6:])
        ctx.check(bad is None, "R07.10", g, "source-only-consumed:%s@%s" % (g.name, g.line),
                  "%s writes into its rvalue-reference parameter `%s` (`%s`): the source receives the destination's old content - a stale value that an earlier erase / pop_back "
                  "removed, or a default - and when the source is an element of the same container (`v.insert(std::move(v[i]))`) that element is overwritten with it"
                  % (short(g.qual), bad[1] if bad else "", fmt(bad[0])[:60] if bad else ""), (g, bad[0].get("ln") if bad else None), why_ok="moved from / read only")
    ctx.need("R07.10", "fixed_vector functions with an rvalue-reference parameter", nrv, 3)
    from .common import rule_no_narrowing
    rule_no_narrowing(ctx, "R07.9", FV, "the requested capacity is truncated while the storage is allocated at full size: capacity() and every bound differ from the list bounded by the requested capacity", minimum=1)
    # a range insert/append traverses [first, last) once: the iterator type is unconstrained, an input-iterator range is
    # consumed by the first walk (std::distance, a counting loop) and a second walk (std::copy) reads nothing new
    for f in methods:
        if f.name not in ("insert", "push_back", "assign") or not f.is_pattern or len(f.params) < 2:
            continue
        itp = [p0["name"] for p0 in f.params if re.fullmatch(r"\w+", (p0.get("type") or "")) and (p0.get("type") or "") not in ("iterator", "const_iterator", "size_type", "value_type")]
        pairs = [(a, b) for a in itp for b in itp if a != b]
        if len(itp) < 2:
            continue
        first, last = itp[-2], itp[-1]
        walks = []
        for bid, i, e in f.roots():
            for n in walk(e["expr"]):
                if n.get("k") == "call" and (n.get("name") or "") in ("std::distance", "std::copy", "std::move", "std::copy_n", "std::for_each", "std::count", "std::accumulate", "std::uninitialized_copy") \
                        and [fmt(ir.unwrap(a)) for a in n.get("args", [])[:2]] == [first, last]:
                    walks.append((n.get("ln"), fmt(n)[:50]))
                if n.get("k") == "construct" and [fmt(ir.unwrap(a)) for a in n.get("args", [])[:2]] == [first, last]:
                    walks.append((n.get("ln"), fmt(n)[:50]))
        for h, body in cfg.loop_blocks(f):
            if any(re.search(r"\+\+\(?%s\b|\b%s\)?\+\+" % (re.escape(first), re.escape(first)), fmt(e["expr"])) for b in body for e in f.elems(b) if e.get("expr") is not None):
                walks.append((f.term(h).get("ln"), "loop advancing %s" % first))
        if walks:
            ctx.check(len(walks) == 1, "R07.6", f, "source-range-walked-once:" + C06._sig(f),
                      "%s walks its source range [%s, %s) %d times (%s): with a single-pass range (istream iterators) the first walk consumes the input, the container then holds stale slots "
                      "instead of the elements" % (f.name, first, last, len(walks), "; ".join("line %s: %s" % w for w in walks)), f, why_ok=str(walks[0]))
    # ---- R07.5 erase shape
    er = [f for f in methods if f.name == "erase"]
    ctx.need("R07.5", "erase", len(er), 1)
    for f in er:
        a = C06.FVAnalysis(ctx, f, cls)
        init = C06.invariant(C06.Zone())
        init.close()
        a.run(init)
        slot_w = [(k, n, z, b, e, x) for (k, n, z, b, e, x) in a.events if k in ("slot_write", "subscript_write")]
        loops = cfg.loop_blocks(f)
        ctx.check(len(loops) == 1, "R07.5", f, "erase-one-shift-loop", "erase has %d loops" % len(loops), f)
        nshift = 0
        for (k, n, z, b, e, x) in slot_w:
            idx = C06.storage_subscript(n)
            t = a.za.lin_at(z, idx)
            # the source of the move: the other storage subscript in the same element
            srcs = []
            for y in walk(e["expr"], into_sc=False):
                if y.get("k") == "subscript" and y is not n and C06.storage_subscript(y) is not None:
                    srcs.append(a.za.lin_at(z, C06.storage_subscript(y)))
            nshift += 1
            okshape = t is not None and len(srcs) == 1 and srcs[0] is not None and srcs[0][0] == t[0] and srcs[0][1] == t[1] + 1
            ctx.check(okshape, "R07.5", f, "erase-shifts-left-by-one", "erase stores into data_[%s] from %s: not `data_[k] <- data_[k+1]` (order of the remaining elements is not kept)"
                      % (fmt(idx), [("%s%+d" % s) if s else "?" for s in srcs]), (f, n.get("ln")))
            in_loop = any(b in body for h, body in loops)
            ctx.check(in_loop, "R07.5", f, "erase-shift-in-loop", "the shift is not inside the loop", (f, n.get("ln")))
            # source index below size_: k + 1 < size_
            if okshape:
                ctx.check(z.entails(t[0], "size_", -t[1] - 2), "R07.5", f, "erase-shift-within-size", "the shift reads data_[%s+1] without `%s + 1 < size_`" % (fmt(idx), fmt(idx)), (f, n.get("ln")))
        ctx.check(nshift == 1, "R07.5", f, "erase-single-shift-statement", "expected one shifting store in erase, found %d" % nshift, f)
        # ascending: the index is incremented in the loop, never decremented
        incs = [(k, n) for (k, n, z, b, e, x) in a.events if k == "incdec" and a.za.varname(ir.unwrap(n["e"])) not in ("size_",)]
        ctx.check(bool(incs) and all(n["op"].startswith("++") for k, n in incs), "R07.5", f, "erase-ascending", "the shift index does not ascend", f)
        decs = [(k, n) for (k, n, z, b, e, x) in a.events if k == "incdec" and a.za.varname(ir.unwrap(n["e"])) == "size_"]
        ctx.check(len(decs) == 1 and decs[0][1]["op"].startswith("--"), "R07.5", f, "erase-decrements-once", "erase does not decrement size_ exactly once", f)
        # memmove / memcpy shortcuts are reported by R06.8 (manual memory) - re-evaluated for C07
    # ---- R07.5 positional emplace = insert before
    em = [f for f in methods if f.name == "emplace"]
    ctx.need("R07.5", "positional emplace", len(em), 1)
    for f in em:
        a = C06.FVAnalysis(ctx, f, cls)
        init = C06.invariant(C06.Zone())
        init.close()
        a.run(init)
        stores = [(k, n, z, b, e, x) for (k, n, z, b, e, x) in a.events if k in ("slot_write", "subscript_write")]
        loops = cfg.loop_blocks(f)
        shift_right = False
        for (k, n, z, b, e, x) in stores:
            idx = a.za.lin_at(z, C06.storage_subscript(n))
            for y in walk(e["expr"], into_sc=False):
                if y.get("k") == "subscript" and y is not n and C06.storage_subscript(y) is not None:
                    s = a.za.lin_at(z, C06.storage_subscript(y))
                    if idx and s and idx[0] == s[0] and idx[1] == s[1] + 1 and any(b in body for h, body in loops):
                        shift_right = True
        if not shift_right:
            # the same walk with a pointer / iterator into the storage: `*p` and `*(p - 1)` in one statement of a loop that steps p down
            inl = set()
            for h, body in loops:
                inl |= set(body)
            for bid, i, e in f.roots():
                if bid not in inl:
                    continue
                t = fmt(e["expr"])
                m = re.search(r"\(\*(\w+)\)", t)
                if m and re.search(r"\(\*\(%s - 1\)\)" % re.escape(m.group(1)), t):
                    pv = m.group(1)
                    steps_down = any(re.fullmatch(r"\(?--%s\)?|\(?%s--\)?" % (pv, pv), fmt(e2["expr"])) for b2 in inl for e2 in f.elems(b2) if e2.get("expr") is not None)
                    starts_at_end = any(isinstance(x2, dict) and x2.get("k") == "decl" and any(v["name"] == pv and re.fullmatch(r"\(?(this->)?c?end\(\) - 1\)?|\(?\(?(data_\.get\(\)|data\(\)) \+ size_\)? - 1\)?", fmt(ir.unwrap(v.get("init"))) if v.get("init") is not None else "") for v in x2.get("vars", []))
                                        for _, _, e2 in f.roots() for x2 in [e2["expr"]])
                    if steps_down and starts_at_end:
                        shift_right = True
        ctx.check(shift_right, "R07.5", f, "emplace-shifts-tail-right",
                  "positional emplace does not move the tail one slot to the right before filling the position: it overwrites the element at the position instead of inserting before it", f)
    # ---- re-evaluate the C06 rules that are also necessary for sequence behaviour (append family, manual memory)
    sub = type(ctx)(ctx.prop, ctx.prog, ctx.tier)
    sub._sharing = True
    C06.run(sub)
    n = 0
    for o in sub.obs:
        # (R06.6: an operation the bounded list refuses leaves the list as it was - a refused emplace that has already appended differs from it)
        # (R06.9: iteration covers slots 0 .. size_ for every accessor pair; R06.4 / R06.2: an erase the bounded list refuses is refused)
        if o.rule in ("R06.5", "R06.6", "R06.8", "R06.9", "R06.4", "R06.2"):
            o.rule = "R07.5"
            ctx.obs.append(o)
            n += 1
    ctx.need("R07.5", "append-family obligations shared with C06", n, 6)
    ctx.assume("observational equality with a reference list over arbitrary histories is not decided")
