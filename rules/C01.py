"""C01 - the parser never silently ignores an argument (token level).

R01.1 (A1) every iteration of the token loop in parser::parse consumes the token through one of: an append of it->data()
      to the positional list; switching the only-positionals mode on for `--`; a `true` result of try_parse_as_option /
      try_parse_as_toggle - or ends in raise<parsing_error>. Lists extended outside the loop obey the limit discipline.
R01.2 (A1) try_parse_as_option: every `return true` is preceded on all paths by update_value on the matched element;
      no update_value on a path returning a non-true value.
R01.3 (A1/A2) try_parse_as_toggle: the returned flag starts false and is set true only after update_value under matches(in).
R01.4 (A1) the three update_value overriders write their value state on every normal exit ("consumed" is observable).
R01.5 (A3) base::matches / toggle::matches return true only under an equality / membership test against the option's
      own name() / short_name().
Not decided: letter-level accounting inside a bundle (-vz with z undeclared; -vo file) - see DESIGN.md.
"""
import re
from sa import ir, cfg, logic, facts
from sa.ir import fmt, walk, short
from sa.logic import Not, And, Or
from sa.callgraph import tree_effects, lvalue_root
from .common import NS, KINDS, PARSE_VEC, callgraph, one, elem_calls, literal_value, bodies_of
from .parse_loop import ParseLoop
from . import C04

VALUE_STATE = {"option": NS + "option::value_", "multi_option": NS + "multi_option::value_", "toggle": NS + "toggle::given_"}


def is_update_call(n):
    return n.get("k") == "call" and short(n.get("name") or "") == "update_value"


def run(ctx):
    prog = ctx.prog
    cg = callgraph(ctx)
    for r, d in (("R01.1", "every iteration consumes the token or raises parsing_error"),
                 ("R01.2", "try_parse_as_option returns true only after update_value on the matched option"),
                 ("R01.3", "try_parse_as_toggle reports a match only after update_value under matches()"),
                 ("R01.4", "update_value always changes the option's value state"),
                 ("R01.5", "matches() is true only under a comparison with the option's own name / letter")):
        ctx.rule(r, d)

    pl = ParseLoop(ctx, "R01.1")
    if pl.ok:
        fn, fe, lg = pl.fn, pl.fe, pl.fe.lg
        it = pl.it
        is_dd = ("a", '((*%s).arg_ == "--")' % it)
        app_elems = {id(a[2]) for a in pl.appends}
        mode_elems = {}
        for (bid, i, e, n, key) in pl.mode_writes:
            st = pl.before.get((bid, i)) or frozenset()
            if logic.entails(st, is_dd, lg.axioms)[0] is True and literal_value(n["r"]) == ("bool", True):
                mode_elems[id(e)] = True
        paths = pl.iteration_paths()
        ctx.need("R01.1", "iteration path classes", len(paths), 5)
        kinds = {}
        for path, end in paths:
            consumed = None
            for b in path:
                for e in fn.elems(b):
                    if id(e) in app_elems:
                        consumed = consumed or "positional"
                    if id(e) in mode_elems:
                        consumed = consumed or "separator"
            # a try_parse_* result taken on its true edge
            for a, b2 in zip(path, path[1:] + [None]):
                t = fn.term(a)
                c = t.get("cond")
                if c is None or b2 is None:
                    continue
                lab = pl.edge_label(a, b2)
                atoms = logic.atoms_of(lg.truthy(c, {}, 0))
                tp = [x for x in atoms if x.startswith("ret:") and "try_parse" in x]
                if tp and lab == "true":
                    # true edge of a (disjunction of) try_parse result(s): some try_parse_* returned true
                    f = lg.truthy(c, {}, 0)
                    allf = Not(tp[0])
                    for x in tp[1:]:
                        allf = And(allf, Not(("a", x)))
                    consumed = consumed or "option/toggle"
            sig = _sig(fn, path, end)
            if end == "raise":
                excs = [exc for _, exc, _ in C04.raise_nodes(fn, path[-1])]
                ctx.check(excs and all(x == C04.ALLOWED for x in excs), "R01.1", fn, "path:" + sig, "an unparsable token ends in %s instead of the user-input error" % excs, fn,
                          why_ok="rejected with parsing_error")
                kinds["raise"] = kinds.get("raise", 0) + 1
            else:
                ctx.check(consumed is not None, "R01.1", fn, "path:" + sig,
                          "an iteration of the token loop can finish (%s) without the token being appended, matched by an option/toggle or rejected: the argument is silently dropped (blocks %s)"
                          % (end, "-".join(map(str, path))), fn, why_ok="consumed as " + str(consumed))
                kinds[consumed] = kinds.get(consumed, 0) + 1
        ctx.tables["iteration_path_classes"] = kinds
        for want in ("positional", "separator", "option/toggle", "raise"):
            ctx.check(kinds.get(want, 0) >= 1, "R01.1", fn, "class-present:" + want, "no iteration path of the token loop handles a %s token any more" % want, fn)
        # appends outside the token loop: reuse C12's limit discipline (a tail loop must not drop tokens silently)
        lst = pl.positionals
        lim_eq = ("a", "(%s.size() == this.allowed_positionals_)" % pl.positionals_atom)
        lim_lt = ("a", "(%s.size() < this.allowed_positionals_)" % pl.positionals_atom)
        for bid2, i2, e2 in fn.roots():
            if bid2 in pl.body or bid2 not in pl.IN:
                continue
            for n2 in walk(e2["expr"], into_sc=False):
                if n2.get("k") == "call" and short(n2.get("name") or "") in ("push_back", "emplace_back") and fmt(n2.get("this")) == lst:
                    dom = cfg.dominators(fn)
                    rejecting = False
                    for gb in dom.get(bid2, ()):
                        c = fn.term(gb).get("cond")
                        if c is not None and "allowed_positionals_" in fmt(c) and lst in fmt(c):
                            for to, lab in fn.succs(gb):
                                if fn.is_noreturn(to) and any(exc == C04.ALLOWED for _, exc, _ in C04.raise_nodes(fn, to)):
                                    rejecting = True
                    ctx.check(rejecting, "R01.1", fn, "tail-copy-rejects-surplus",
                              "tokens are copied to the positional list at line %s outside the classifying loop under a bound that has no raising edge: tokens beyond the bound are dropped silently"
                              % n2.get("ln"), (fn, n2.get("ln")))

    # ---- R01.2
    tpos = bodies_of(prog, NS + "parser::try_parse_as_option")
    ctx.need("R01.2", "try_parse_as_option instantiations", len(tpos), 2)
    for f in tpos:
        upd = lambda e: any(is_update_call(n) for n in elem_calls(e))
        rets = []
        for bid, i, e in f.roots():
            x = e["expr"]
            if x.get("k") == "return":
                rets.append((bid, i, e, literal_value(x.get("e"))))
        ctx.need("R01.2", "returns in " + short(f.qual), len(rets), 2)
        ntrue = 0
        for bid, i, e, lv in rets:
            if lv == ("bool", True):
                ntrue += 1
                ok, path = cfg.must_precede(f, upd, lambda x, t=e: x is t)
                ctx.check(ok, "R01.2", f, "true-after-update", "try_parse_as_option can return true (line %s) on a path (B%s) without calling update_value: the token is reported as consumed but nothing is stored"
                          % (e.get("ln"), "->B".join(map(str, path or []))), (f, e.get("ln")))
            else:
                bad = None
                for (b2, i2, e2) in cfg.find_elems(f, upd):
                    if cfg.reaches_without(f, (b2, i2), lambda x, t=e: x is t, lambda x: False) is not None:
                        bad = e2
                ctx.check(bad is None, "R01.2", f, "no-update-when-not-true", "update_value (line %s) can be followed by a return of a non-true value (line %s): the option is changed but the token is then treated as unconsumed"
                          % (bad.get("ln") if bad else "?", e.get("ln")), (f, e.get("ln")))
        ctx.check(ntrue >= 1, "R01.2", f, "returns-true-somewhere", "try_parse_as_option never returns true", f)
        # the updated object is the matched one
        fe2 = facts.FactsEngine(prog, cg)
        IN, before = fe2.analyse(f)
        for bid, i, e in f.roots():
            for n in elem_calls(e):
                if is_update_call(n) and bid in IN:
                    recv = logic.objpath(n.get("this"))
                    st = before.get((bid, i)) or frozenset()
                    matched = [a for g in st for a in logic.atoms_of(g) if a.startswith(recv + ".matches(") or a.startswith("(*%s).matches(" % recv) or (".matches(" in a and recv.strip("()*") in a)]
                    okm = any(logic.entails(st, ("a", a), fe2.lg.axioms)[0] is True for a in matched)
                    ctx.check(okm, "R01.2", f, "update-on-matched@%s" % _rel(f, e), "update_value is applied to %s at line %s without a preceding positive matches() on that object" % (recv, e.get("ln")), (f, e.get("ln")))

    # ---- R01.3
    tt = one(ctx, "R01.3", NS + "parser::try_parse_as_toggle")
    if tt:
        fe3 = facts.FactsEngine(prog, cg)
        IN, before = fe3.analyse(tt)
        rets = [(b, i, e) for b, i, e in tt.roots() if e["expr"].get("k") == "return"]
        flag = None
        for b, i, e in rets:
            r = ir.unwrap(e["expr"].get("e"))
            if isinstance(r, dict) and r.get("k") == "ref" and r["decl"].startswith("local:"):
                flag = r["decl"][6:]
        if flag is None:
            ctx.broken("R01.3", tt, "flag", "try_parse_as_toggle does not return a local flag: idiom not recognised", tt)
        else:
            init = None
            sets = []
            for b, i, e in tt.roots():
                x = e["expr"]
                if x.get("k") == "decl":
                    for v in x.get("vars", []):
                        if v["name"] == flag:
                            init = literal_value(v.get("init"))
                for eff, lv, n in tree_effects(x, into_sc=False):
                    if eff == "write" and lv is not None and lvalue_root(lv)[:2] == ("local", flag):
                        sets.append((b, i, e, n))
            ctx.check(init == ("bool", False), "R01.3", tt, "flag-starts-false", "the match flag is initialised to %s" % (init,), tt)
            ctx.need("R01.3", "assignments of the match flag", len(sets), 1)
            upd = lambda e: any(is_update_call(n) for n in elem_calls(e))
            for b, i, e, n in sets:
                rhs_true = n.get("k") == "bin" and n["op"] == "=" and literal_value(n["r"]) == ("bool", True)
                st = before.get((b, i)) or frozenset()
                under_match = bool(cfg.dominated_by_edge(tt, b, lambda c: ir.unwrap(c).get("k") == "call" and short(ir.unwrap(c).get("name") or "") == "matches"))
                # an update_value call dominates the assignment within the same iteration (same block or a dominator inside the loop)
                dom = cfg.dominators(tt)
                upd_before = any((b2 == b and i2 < i) or (b2 != b and b2 in dom.get(b, ()) and any(b2 in body for h, body in cfg.loop_blocks(tt)))
                                 for (b2, i2, e2) in cfg.find_elems(tt, upd))
                ctx.check(rhs_true and under_match and upd_before, "R01.3", tt, "flag-set-after-update-under-match@%s" % _rel(tt, e),
                          "the match flag is set at line %s %s: a token can be reported as consumed by a toggle that was not updated" % (
                              e.get("ln"), "without matches()" if not under_match else ("without a preceding update_value" if not upd_before else "to a non-true value")),
                          (tt, e.get("ln")))

    # ---- R01.7: a value-taking option never consumes a bundle of several letters
    ctx.rule("R01.7", "a value-taking option's letter hidden inside a bundle is never consumed (the update is unreachable for bundles)")
    parse = prog.fn(PARSE_VEC)
    fe7 = facts.FactsEngine(prog, cg)
    n7 = 0
    seen7 = set()
    if parse is not None and parse.has_cfg:
        INp, beforep = fe7.analyse(parse)
        for bid, i, e in parse.roots():
            for cn in walk(e["expr"], into_sc=True):
                if cn.get("k") != "call" or short(cn.get("name") or "") != "try_parse_as_option":
                    continue
                callee = prog.fn(cn.get("callee")) if cn.get("callee") else None
                if callee is None or not callee.has_cfg or bid not in INp:
                    continue
                # the callee analysed in the caller's terms (parameters replaced by the argument expressions), starting
                # from what parse() knows at the call
                env = {"this": None, "params": {p0["name"]: a for p0, a in zip(callee.params, cn.get("args", [])) if p0.get("name")}}
                # facts of the block on entry (the call sits in a short-circuit chain: later operands see the earlier ones false)
                init = INp[bid]
                INc, beforec = fe7.analyse(callee, env, "R01.7:%s:%s" % (bid, fmt(cn)[:40]), init)
                for b2, i2, e2 in callee.roots():
                    for un in elem_calls(e2):
                        if not is_update_call(un) or b2 not in INc:
                            continue
                        if (callee.id, b2, i2) in seen7:
                            continue
                        seen7.add((callee.id, b2, i2))
                        n7 += 1
                        recv = un.get("this")
                        # the matches() that guards this update, resolved for the static type of the receiver
                        st = list(beforec.get((b2, i2)) or [])
                        margs = None
                        for g in st:
                            pass
                        mcall = None
                        for b3, i3, e3 in callee.roots():
                            for mn in elem_calls(e3):
                                if short(mn.get("name") or "") == "matches" and fmt(mn.get("this")) == fmt(recv):
                                    mcall = mn
                        tok = mcall["args"][0] if mcall and mcall.get("args") else None
                        site = "%s@%s" % (short(callee.qual), _rel(callee, e2))
                        if tok is None:
                            ctx.broken("R01.7", callee, "guarding-matches:" + site, "no matches() call on the updated object found: idiom not recognised", (callee, e2.get("ln")))
                            continue
                        stype = (ir.unwrap(recv).get("type") or "").replace("*", "").replace("const", "").strip()
                        target = _final_overrider(prog, stype, "matches") or _final_overrider(prog, NS + stype.split("::")[-1], "matches")
                        if target is None:
                            ctx.broken("R01.7", callee, "guarding-matches:" + site, "cannot resolve matches() for receiver type %s" % stype, (callee, e2.get("ln")))
                            continue
                        tok_s = logic.subst(tok, env)
                        F = lg.fn_formula(target, {"this": logic.subst(recv, env), "params": {target.params[0]["name"]: tok_s}})
                        isf = prog.fn(NS + "user_input::is_short() const")
                        IS = lg.fn_formula(isf, {"this": tok_s, "params": {}}) if isf is not None and isf.has_cfg else None
                        if F is None or IS is None:
                            ctx.broken("R01.7", callee, "guarding-matches:" + site, "matches()/is_short() is not a loop-free predicate", (callee, e2.get("ln")))
                            continue
                        known = st + [F]
                        atoms = set()
                        for g in known:
                            atoms |= set(logic.atoms_of(g))
                        tk = re.escape(logic.canon(tok_s))
                        bund = [a for a in atoms if re.fullmatch(r"\(1 < %s\.as_short_list\(\)\.size\(\)\)" % tk, a) or re.fullmatch(r"\(2 < %s\.name_\.size\(\)\)" % tk, a)
                                or re.fullmatch(r"\(2 < %s\.name\(\)\.size\(\)\)" % tk, a)]
                        proved = False
                        for a in bund:
                            r, cm = logic.entails(known, Or(Not(IS), Not(("a", a))), lg.axioms)
                            if r is True:
                                proved = True
                        ctx.check(proved, "R01.7", callee, "no-bundle-at-update:" + site,
                                  "update_value of a value-taking option (line %s) is reachable for a short token with several letters (%s): the option takes the token, "
                                  "every other letter of the bundle is dropped without an error (`-vo file` sets o and loses v)"
                                  % (e2.get("ln"), "a size guard exists but does not cover this path" if bund else "no guard on the number of letters at all"), (callee, e2.get("ln")),
                                  why_ok="is_short => !(several letters)")
    ctx.need("R01.7", "update_value sites in try_parse_as_option (both instantiations)", n7, 4)

    # ---- R01.8: every letter of a bundle is a counted toggle
    ctx.rule("R01.8", "try_parse_as_toggle reports a short token as consumed only when all its letters were matched (letter accounting)")
    if tt:
        # necessary: some rejecting exit (raise<parsing_error>) is reachable inside try_parse_as_toggle or base/toggle::matches
        # refuses partially-declared bundles. Sufficient (recognised idiom): an accumulator started at 0, increased only by
        # count(short_name()) of matched toggles, compared with as_short_list().size(); the mismatch edge raises parsing_error
        # and dominates the true return.
        raises = [b for b in tt.reachable_blocks() if tt.is_noreturn(b) and any(exc == C04.ALLOWED for _, exc, _ in C04.raise_nodes(tt, b))]
        acc = _letter_accounting(tt)
        if not raises:
            ctx.bad("R01.8", tt, "letters-accounted", "try_parse_as_toggle has no rejecting exit: once one toggle of a bundle matched, the token counts as consumed and every "
                    "other letter - undeclared ones included - is dropped (`-vz` is accepted and z vanishes)", tt)
        elif acc is None:
            ctx.broken("R01.8", tt, "letters-accounted", "try_parse_as_toggle rejects some tokens, but the letter accounting is not in a recognised form (accumulate count(short_name()) of the "
                       "matched toggles, compare with as_short_list().size(), raise parsing_error on mismatch)", tt)
        else:
            ok, why = acc
            ctx.check(ok, "R01.8", tt, "letters-accounted", why, tt, why_ok=why)
    # ---- R01.4
    for k in KINDS:
        f = one(ctx, "R01.4", NS + k + "::update_value")
        if not f:
            continue
        fld = VALUE_STATE[k]

        def writes(e, fld=fld):
            x = e.get("expr")
            if x is None:
                return False
            for eff, lv, n in tree_effects(x, into_sc=False):
                if eff in ("write", "maybe_write") and lv is not None:
                    kind, key, _ = lvalue_root(lv)
                    if kind == "field" and key[0] == fld and key[1] == "this":
                        return True
            return False

        eok = None
        if k == "toggle":
            from . import C11
            eok = C11.one_letter_edge_ok(ctx, f, f.params[0]["name"] if f.params else "arg")
        ok, path = cfg.must_happen_before_exit(f, writes, edge_ok=eok)
        ctx.check(ok, "R01.4", f, "consumes-observably", "%s::update_value can return (path B%s) without changing %s: the token is consumed with no effect" % (k, "->B".join(map(str, path or [])), short(fld)), f)

    # ---- R01.5
    lg = logic.Logic(prog, cg)
    bm = one(ctx, "R01.5", NS + "base::matches")
    tm = one(ctx, "R01.5", NS + "toggle::matches")
    all_accessors = set()
    for f in (bm, tm):
        if not f:
            continue
        pn = f.params[0]["name"]
        form = lg.fn_formula(f, {"this": None, "params": {}}, noreturn_false=True)
        if form is None:
            ctx.broken("R01.5", f, "matches-skeleton", "matches() is not a loop-free boolean function", f)
            continue
        own = []
        accessors = set()
        for a in sorted(logic.atoms_of(form)):
            # equality of the option's whole name with a whole-name accessor of the token: (tok.accessor() == this.name())
            m = re.fullmatch(r"\((.+) == (.+)\)", a)
            if m:
                l, r = m.group(1), m.group(2)
                if r not in ("this.name()", "this.name_"):
                    l, r = r, l
                ma = re.fullmatch(r"%s\.(\w+)\(\)" % re.escape(pn), l)
                if r in ("this.name()", "this.name_") and ma:
                    own.append(("a", a))
                    accessors.add(ma.group(1))
            if ".count(this.short_name())" in a or ".count(this.short_)" in a:
                # membership of the own letter: count(..) != 0 / 0 < count(..) / !(count(..) == 0)
                own.append(Not(("a", a)) if re.search(r"== 0\)$", a) else ("a", a))
        if not own:
            ctx.bad("R01.5", f, "true-only-under-own-name", "%s contains no comparison of the token with the option's own name() or short_name()" % short(f.qual), f)
            continue
        all_accessors |= accessors
        goal = own[0]
        for o in own[1:]:
            goal = Or(goal, o)
        r, cm = logic.entails([form], goal, lg.axioms)
        ctx.check(r is True, "R01.5", f, "true-only-under-own-name",
                  "%s can return true although the token equals neither the option's name nor contains its letter (state %s): a foreign token would be consumed"
                  % (short(f.qual), {k: v for k, v in (cm or {}).items() if v}), f, why_ok="true => " + logic.show(goal)[:160])
    # the whole-name accessors really return the whole name behind the fixed prefix their guard tests
    PREFIX = {"as_named": ("is_named", 2), "name_without_prefix": ("has_prefix", 5)}  # "--" / "--no-"
    UI = NS + "user_input"
    for acc in sorted(all_accessors):
        fs = [f for f in prog.methods_of(UI) if f.name == acc and f.has_cfg]
        if acc not in PREFIX or len(fs) != 1:
            ctx.broken("R01.5", UI + "::" + acc, "whole-name-accessor", "matches() compares the option's name with %s(), which is not one of the known whole-name accessors %s" % (acc, sorted(PREFIX)), "-")
            continue
        f = fs[0]
        guard, k = PREFIX[acc]
        rets_ = [ir.unwrap(e["expr"].get("e")) for _, _, e in f.roots() if e["expr"].get("k") == "return" and e["expr"].get("e") is not None]
        ok = False
        txt = [fmt(x) for x in rets_]
        for x in rets_:
            t = fmt(x).replace(", allocator{}", "")
            if re.fullmatch(r"(basic_string)?\{\(name_\.begin\(\) \+ %d\), name_\.end\(\)\}" % k, t) or re.fullmatch(r"(name\(\)|name_)\.substr\(%d(, .*npos)?\)" % k, t):
                ok = True
        guarded = any(short(n.get("name") or "") == guard for _, _, e in f.roots() for n in elem_calls(e))
        ctx.check(ok and len(rets_) == 1 and guarded, "R01.5", f, "whole-name-accessor:" + acc,
                  "%s() returns %s%s: it must be the entire name behind the %d-character prefix, otherwise names that merely share a part with a declared name match" % (acc, txt, "" if guarded else " without testing %s()" % guard, k), f,
                  why_ok="%s -> name[%d:]" % (acc, k))
    # ---- R01.11: the token an option swallows as its value is a value token
    ctx.rule("R01.11", "a value-taking option consumes a FOLLOWING token only when that token is a value token (does not start with a dash): "
                       "an option-like token is never swallowed unexamined")
    n11 = 0
    tpos = bodies_of(prog, NS + "parser::try_parse_as_option")
    fe11 = facts.FactsEngine(prog, cg)
    for f in tpos:
        itp = f.params[1]["name"] if len(f.params) >= 2 else "it"
        IN, before = fe11.analyse(f)
        for bid in IN:
            for i, e in enumerate(f.elems(bid)):
                for n in elem_calls(e):
                    if not is_update_call(n) or not n.get("args"):
                        continue
                    a = logic.canon(n["args"][0])
                    if a in ("(*%s)" % itp, "*%s" % itp):
                        continue
                    n11 += 1
                    ok, cm = fe11.proves(f, bid, i, Not(("a", "(%s.name_[0] == '-')" % a)))
                    ctx.check(ok, "R01.11", f, "swallowed-token-is-a-value:%s" % a,
                              "update_value(%s) at line %s is reachable for a token that starts with a dash [known: %s]: an option waiting for its value swallows the following "
                              "option-like token (`--output --unknown=5`), whose name is never looked at" % (a, n.get("ln"), [logic.show(g) for g in before.get((bid, i), [])][:6]),
                              (f, n.get("ln")), why_ok="!(%s starts with '-')" % a)
    ctx.need("R01.11", "look-ahead update_value sites (both instantiations)", n11, 2)
    # ---- R01.12: a toggle token that carries `=value` is rejected, not counted with its value dropped (R11.2 re-evaluated)
    ctx.rule("R01.12", "every write of a toggle's count happens for a token without `=value` (R11.2 re-evaluated): `--no-color=never` is an error, not a silently dropped value")
    if ctx.prop == "C01" and not getattr(ctx, "_sharing", False):
        from .common import share
        share(ctx, "C11", ("R11.2",), "R01.12", "toggle guards shared with C11", 6)
        # the letter accounting of bundles presupposes that no two options share a letter - in every parser that parses
        ctx.rule("R01.13", "the letter-uniqueness check runs on every parse (R13.4 re-evaluated): the bundle accounting of R01.8 adds up per-toggle counts and is only sound when letters are unique")
        share(ctx, "C13", ("R13.4",), "R01.13", "consistency-check obligations shared with C13", 6)
    # ---- R01.9: what a token set is still there when parse() returns - check() consults environment/default only when the
    # command line gave nothing (C03's R03.1 re-evaluated for all three kinds)
    ctx.rule("R01.14", "parse(argc, argv) turns every argv[1..argc-1] into a token: no iteration of a token-building loop returns to the loop head without an append")
    from .common import rule_every_argument_tokenised
    rule_every_argument_tokenised(ctx, "R01.14")
    ctx.rule("R01.9", "a consumed token's effect is not overwritten after the loop: check() leaves command-line values alone (R03.1 re-evaluated)")
    if ctx.prop == "C01" and not getattr(ctx, "_sharing", False):
        from .common import share
        share(ctx, "C03", ("R03.1",), "R01.9", "source-order obligations shared with C03", 3)
        ctx.rule("R01.15", "the `=value` of a token lives in an optional<std::string>: copying a token (also onto itself, as an in-place filter `args[k++] = args[i]` does) keeps it (R18.4 re-evaluated) - a token that loses its value is parsed as `--name` and takes the NEXT word")
        share(ctx, "C18", ("R18.4",), "R01.15", "optional copy obligations shared with C18", 1)
        ctx.rule("R01.16", "every way in turns every element of its range into a token (R12.10 re-evaluated with its type-level witnesses): an added parse(Iter, Iter) that measures or walks its range "
                           "twice loses every word but the first for a read-once iterator (a response file read through std::istream_iterator)")
        share(ctx, "C12", ("R12.10",), "R01.16", "entry-point obligations shared with C12", 2)
    # ---- R01.10: the letter list really is the multiset of all letters of the token
    ctx.rule("R01.10", "as_short_list() returns every letter behind the dash with its multiplicity (size() and count() mean what R01.7/R01.8/R11.1 take them to mean)")
    asl = [f for f in prog.methods_of(NS + "user_input") if f.name == "as_short_list" and f.has_cfg]
    ctx.need("R01.10", "user_input::as_short_list", len(asl), 1)
    for f in asl:
        rt = (f.ret or "").replace(" ", "")
        multi = re.search(r"\bmultiset<|\bvector<|\bunordered_multiset<|\bbasic_string<|\bstd::string$", rt) is not None
        ctx.check(multi, "R01.10", f, "letters-with-multiplicity", "as_short_list() returns %s: in that container size() counts distinct letters and count() is 0/1, so a repeated letter is not seen as a bundle "
                  "(`-oo file` is taken as `-o file`) and the letter accounting compares the wrong numbers" % f.ret, f, why_ok=f.ret)
        loops = cfg.loop_blocks(f)
        ok_loop = False
        why = "no loop"
        if len(loops) == 1:
            h, body = loops[0]
            c = fmt(f.term(h).get("cond"))
            inits = [fmt(e["expr"]) for _, _, e in f.roots() if e["expr"].get("k") == "decl" and any(v.get("init") is not None and literal_value(v["init"]) == ("int", 1) for v in e["expr"]["vars"])]
            ins = [(b, e) for b in body for e in f.elems(b) if e.get("expr") is not None and any(n.get("k") == "call" and short(n.get("name") or "") in ("emplace", "insert", "emplace_back", "push_back", "emplace_hint") for n in walk(e["expr"]))]
            dom = cfg.dominators(f)
            latch = [x for x in body if any(to == h for to, _ in f.succs(x))]
            uncond = len(ins) == 1 and all(ins[0][0] in dom.get(l, ()) for l in latch)
            index_form = bool(inits) and re.search(r"< (this->)?name_\.size\(\)\)$", c) is not None
            # iterator form: [X.begin() + 1, X.begin() + name_.size()) over the token text
            itinit = {}
            for _, _, e in f.roots():
                if e["expr"].get("k") == "decl":
                    for v in e["expr"]["vars"]:
                        if v["name"].startswith("__begin") or v["name"].startswith("__end"):
                            itinit[v["name"][:7].rstrip("0123456789")] = fmt(ir.unwrap(ir.strip_deep(v.get("init")))) if v.get("init") is not None else ""
            iter_form = re.fullmatch(r"\((arg_|name_)\.c?begin\(\) \+ 1\)", itinit.get("__begin", "")) is not None and \
                re.fullmatch(r"\((arg_|name_)\.c?begin\(\) \+ name_\.size\(\)\)", itinit.get("__end", "")) is not None
            # an explicit iterator over the NAME part: it = name_.begin() + 1 ... it != name_.end()  (or the bound spelled on arg_)
            for _, _, e in f.roots():
                if e["expr"].get("k") == "decl":
                    for v in e["expr"]["vars"]:
                        i0 = fmt(ir.unwrap(ir.strip_deep(v.get("init")))) if v.get("init") is not None else ""
                        if re.fullmatch(r"\((arg_|name_)\.c?begin\(\) \+ 1\)", i0) and (
                                re.fullmatch(r"\(%s != name_\.c?end\(\)\)|\(name_\.c?end\(\) != %s\)" % (re.escape(v["name"]), re.escape(v["name"])), c)
                                or re.fullmatch(r"\(%s != \((arg_|name_)\.c?begin\(\) \+ name_\.size\(\)\)\)" % re.escape(v["name"]), c)):
                            iter_form = True
            why = "init %s / %s, condition %s, %d insertion(s)%s" % (inits, itinit, c, len(ins), "" if uncond else " (conditional)")
            if not (index_form or iter_form):
                ctx.broken("R01.10", f, "one-entry-per-letter", "the letter loop of as_short_list() is in neither recognised form (index 1 .. name_.size(), or iterators begin()+1 .. begin()+name_.size()): %s" % why, f)
                continue
            ok_loop = uncond
        ctx.check(ok_loop, "R01.10", f, "one-entry-per-letter", "as_short_list() does not insert exactly one entry for every index 1 .. name_.size()-1 (%s)" % why, f, why_ok=why)
    # ---- R01.6: the value that accompanies an option reaches the result uncut (shared with C02's R02.1)
    ctx.rule("R01.6", "an option's value token is stored whole (no part of the argument is silently dropped) - R02.1 re-evaluated")
    from . import C02
    sub = type(ctx)(ctx.prop, ctx.prog, ctx.tier)
    sub._sharing = True
    C02.run(sub)
    n6 = 0
    for o in sub.obs:
        if o.rule == "R02.1":
            n6 += 1
            o.rule = "R01.6"
            ctx.obs.append(o)
    ctx.need("R01.6", "value transport obligations", n6, 6)
    ctx.assume("letter-level accounting inside bundles (every letter of -abc is a declared, counted toggle) is NOT decided: "
               "`-vz` with z undeclared and `-vo file` losing v are accepted today (genuine, see DESIGN.md section 6)")


def _rel(f, e):
    return "+%d" % ((e.get("ln") or f.line) - f.line)


def _sig(fn, path, end):
    sig = []
    for a, b in zip(path, path[1:]):
        t = fn.term(a)
        if t.get("cond") is not None and len(fn.succs(a)) == 2:
            for to, lab in fn.succs(a):
                if to == b:
                    sig.append(("+" if lab == "true" else "-") + fmt(t["cond"])[:24])
    return "/".join(sig)[:170] + ">" + end


def _final_overrider(prog, cls, name):
    """the function `name` an object of static type cls runs when cls has no subclass overriding it: nearest definition up the bases"""
    seen = set()
    st = [cls]
    while st:
        c = st.pop(0)
        if c in seen:
            continue
        seen.add(c)
        fs = [f for f in prog.methods_of(c) if f.name == name and f.has_cfg]
        if fs:
            return fs[0]
        cd = prog.cls(c)
        if cd:
            st += [b["name"] for b in cd.get("bases", []) if b.get("name")]
    return None


def _letter_accounting(tt):
    """(ok, text) if try_parse_as_toggle contains the count-and-compare idiom, None if not recognisable"""
    # accumulator: an integral local initialised with 0 and only modified by `+= X.count(Y.short_name())`
    accs = {}
    for b, i, e in tt.roots():
        x = e["expr"]
        if x.get("k") == "decl":
            for v in x.get("vars", []):
                if literal_value(v.get("init")) == ("int", 0) and re.search(r"int|size_t|long|unsigned", v.get("type") or ""):
                    accs[v["name"]] = []
    for b, i, e in tt.roots():
        for eff, lv, n in tree_effects(e["expr"], into_sc=False):
            if eff == "write" and lv is not None:
                kind, key, _ = lvalue_root(lv)
                if kind == "local" and key in accs and not (n.get("k") == "decl"):
                    accs[key].append((b, i, e, n))
    # locals that hold the token's letter list: every definition is `<token>.as_short_list()`, possibly as one arm of a ?: whose
    # other arm is an empty container (built once up front instead of once per matching toggle)
    lists = set()
    for b, i, e in tt.roots():
        x = e["expr"]
        if x.get("k") == "decl":
            for v in x.get("vars", []):
                t0 = fmt(ir.unwrap(v.get("init"))) if v.get("init") is not None else ""
                if re.fullmatch(r"\(?(\w+(\.\w+\(\))? \? )?\w+\.as_short_list\(\)( : \w*(set|vector|basic_string)?\{\})?\)?", t0) and (v.get("type") or "").startswith("const "):
                    lists.add(v["name"])
    LIST = r"(?:.*\.as_short_list\(\)%s)" % ("".join("|" + re.escape(n0) for n0 in sorted(lists)))
    best = None
    for name, ws in accs.items():
        if not ws:
            continue
        good = True
        for b, i, e, n in ws:
            r = fmt(ir.unwrap(n.get("r"))) if n.get("k") == "bin" and n.get("op") == "+=" else ""
            if not re.search(r"(?:%s)\.count\(.*short_name\(\)\)" % LIST, r):
                good = False
            if not cfg.dominated_by_edge(tt, b, lambda c: ir.unwrap(c).get("k") == "call" and short(ir.unwrap(c).get("name") or "") == "matches"):
                good = False
        if not good:
            continue
        # the comparison with the bundle size whose mismatch edge raises
        for b in tt.reachable_blocks():
            c = tt.term(b).get("cond")
            if c is None:
                continue
            # `flag && token.is_short() && acc != size`: the conjuncts of the branch condition
            conj = []

            def flat(x):
                x = ir.unwrap(x)
                if isinstance(x, dict) and x.get("k") == "bin" and x.get("op") == "&&":
                    flat(x["l"])
                    flat(x["r"])
                else:
                    conj.append(x)
            flat(c)
            cmpn = None
            others = []
            for x in conj:
                bo = ir.as_binop(x)
                sides = [fmt(ir.unwrap(bo[1])), fmt(ir.unwrap(bo[2]))] if bo and bo[0] in ("!=", "==", "<", ">", "<=", ">=") else []
                # the number of letters of the token: the letter list's size(), or - R01.10: one entry per character behind the dash - the name's length minus one
                if sides and name in sides and any(re.fullmatch(r"(?:%s)\.size\(\)" % LIST, s0) or re.fullmatch(r"\(\w+\.(name\(\)|name_)\.(size|length)\(\) - 1\)", s0) for s0 in sides):
                    # normalise to `acc OP size`; the accumulator can never exceed the number of letters, so `acc < size` is the
                    # mismatch as well, while `acc > size` can never hold
                    op = bo[0] if sides[0] == name else {"<": ">", ">": "<", "<=": ">=", ">=": "<="}.get(bo[0], bo[0])
                    if op in (">", "<="):
                        return (False, "the guard at line %s tests `%s %s %s`: the matched letters can never exceed the letters of the bundle, so it %s and undeclared letters of a bundle are dropped"
                                % (tt.term(b).get("ln"), sides[0], bo[0], sides[1], "never fires" if op == ">" else "is always true"))
                    cmpn = ({"<": "!=", ">=": "=="}.get(op, op), bo[1], bo[2])
                else:
                    others.append(x)
            if cmpn is None:
                continue
            if len(conj) > 1 and cmpn[0] != "!=":
                continue
            # the same condition when the CFG keeps the && chain in separate blocks (no temporaries to join for): the blocks in front
            # of this one whose true edge leads here and whose false edge goes where this block's non-raising edge goes
            head = b
            if len(conj) == 1:
                preds = tt.preds()
                cur = b
                while True:
                    ps = [p0 for p0, lab in preds.get(cur, []) if lab == "true" and tt.term(p0).get("kind") == "and" and tt.term(p0).get("cond") is not None]
                    if len(ps) != 1 or len(preds.get(cur, [])) != 1:
                        break
                    others.append(ir.unwrap(tt.term(ps[0])["cond"]))
                    cur = head = ps[0]
            # the other conjuncts may only restrict the test to matched short tokens
            narrow = [fmt(x) for x in others if not (isinstance(x, dict) and ((x.get("k") == "ref" and (x.get("type") or "").replace("const ", "") in ("bool", "_Bool")) or (x.get("k") == "call" and short(x.get("name") or "") == "is_short")))]
            mism = "true" if cmpn[0] == "!=" else "false"
            tgt = [to for to, lab in tt.succs(b) if lab == mism]
            raising = bool(tgt) and tt.is_noreturn(tgt[0]) and any(exc == C04.ALLOWED for _, exc, _ in C04.raise_nodes(tt, tgt[0]))
            if tgt and not raising:
                # the error branch may prepare its message first (collect the unknown letters in a loop): what counts is that no way leads from
                # the mismatch edge to a normal exit, and every way out is raise<parsing_error>
                seen_b, st_b = set(), [tgt[0]]
                while st_b:
                    xb = st_b.pop()
                    if xb in seen_b:
                        continue
                    seen_b.add(xb)
                    if not tt.is_noreturn(xb):
                        st_b.extend(to for to, _ in tt.succs(xb))
                ends = [xb for xb in seen_b if tt.is_noreturn(xb)]
                raising = bool(ends) and tt.exit not in seen_b and not (seen_b & set(tt.return_blocks())) and b not in seen_b \
                    and all(any(exc == C04.ALLOWED for _, exc, _ in C04.raise_nodes(tt, xb)) for xb in ends)
            dom = cfg.dominators(tt)
            covers = all(head in dom.get(rb, ()) for rb in tt.return_blocks())
            if not covers and best is None:
                best = (False, "the comparison of `%s` with the bundle size at line %s can be bypassed on the way to a return" % (name, tt.term(b).get("ln")))
            elif len(tt.succs(b)) == 2 and not narrow:
                best = (raising, "letters matched are accumulated in `%s` and compared with the bundle size at line %s; the mismatch edge %s"
                        % (name, tt.term(b).get("ln"), "raises parsing_error" if raising else "does not raise parsing_error"))
            elif narrow and best is None:
                best = (False, "the comparison of `%s` with the bundle size at line %s only applies when %s: other bundles are not accounted" % (name, tt.term(b).get("ln"), narrow))
    return best
