"""C01 - the parser never silently ignores an argument (token level).

R01.1 (A1) every iteration of the token loop in parser::parse consumes the token through one of: an append of it->data()
      to the positional list; switching the only-positionals mode on for `--`; a `true` result of try_parse_as_option /
      try_parse_as_toggle - or ends in raise<parsing_error>. Lists extended outside the loop obey the limit discipline.
R01.2 (A1) try_parse_as_option: every `return true` is preceded on all paths by update_value on the matched element;
      no update_value on a path returning a non-true value.
R01.3 (A1/A2) try_parse_as_toggle: the returned flag starts false and is set true only after update_value under matches(in).
R01.4 (A1) the three update_value overriders write their value state on every normal exit ("consumed" is observable).
R01.5 (A3) base::matches / toggle::matches return true only under an equality / membership test against the option's
      own name() / short_name().
Not decided: letter-level accounting inside a bundle (-vz with z undeclared; -vo file) - see DESIGN.md.
"""
import re
from sa import ir, cfg, logic, facts
from sa.ir import fmt, walk, short
from sa.logic import Not, And, Or
from sa.callgraph import tree_effects, lvalue_root
from .common import NS, KINDS, PARSE_VEC, callgraph, one, elem_calls, literal_value
from .parse_loop import ParseLoop
from . import C04

VALUE_STATE = {"option": NS + "option::value_", "multi_option": NS + "multi_option::value_", "toggle": NS + "toggle::given_"}


def is_update_call(n):
    return n.get("k") == "call" and short(n.get("name") or "") == "update_value"


def run(ctx):
    prog = ctx.prog
    cg = callgraph(ctx)
    for r, d in (("R01.1", "every iteration consumes the token or raises parsing_error"),
                 ("R01.2", "try_parse_as_option returns true only after update_value on the matched option"),
                 ("R01.3", "try_parse_as_toggle reports a match only after update_value under matches()"),
                 ("R01.4", "update_value always changes the option's value state"),
                 ("R01.5", "matches() is true only under a comparison with the option's own name / letter")):
        ctx.rule(r, d)

    pl = ParseLoop(ctx, "R01.1")
    if pl.ok:
        fn, fe, lg = pl.fn, pl.fe, pl.fe.lg
        it = pl.it
        is_dd = ("a", '((*%s).arg_ == "--")' % it)
        app_elems = {id(a[2]) for a in pl.appends}
        mode_elems = {}
        for (bid, i, e, n, key) in pl.mode_writes:
            st = pl.before.get((bid, i)) or frozenset()
            if logic.entails(st, is_dd, lg.axioms)[0] is True and literal_value(n["r"]) == ("bool", True):
                mode_elems[id(e)] = True
        paths = pl.iteration_paths()
        ctx.need("R01.1", "iteration path classes", len(paths), 5)
        kinds = {}
        for path, end in paths:
            consumed = None
            for b in path:
                for e in fn.elems(b):
                    if id(e) in app_elems:
                        consumed = consumed or "positional"
                    if id(e) in mode_elems:
                        consumed = consumed or "separator"
            # a try_parse_* result taken on its true edge
            for a, b2 in zip(path, path[1:] + [None]):
                t = fn.term(a)
                c = t.get("cond")
                if c is None or b2 is None:
                    continue
                lab = pl.edge_label(a, b2)
                atoms = logic.atoms_of(lg.truthy(c, {}, 0))
                tp = [x for x in atoms if x.startswith("ret:") and "try_parse" in x]
                if tp and lab == "true":
                    # true edge of a (disjunction of) try_parse result(s): some try_parse_* returned true
                    f = lg.truthy(c, {}, 0)
                    allf = Not(tp[0])
                    for x in tp[1:]:
                        allf = And(allf, Not(("a", x)))
                    consumed = consumed or "option/toggle"
            sig = _sig(fn, path, end)
            if end == "raise":
                excs = [exc for _, exc, _ in C04.raise_nodes(fn, path[-1])]
                ctx.check(excs and all(x == C04.ALLOWED for x in excs), "R01.1", fn, "path:" + sig, "an unparsable token ends in %s instead of the user-input error" % excs, fn,
                          why_ok="rejected with parsing_error")
                kinds["raise"] = kinds.get("raise", 0) + 1
            else:
                ctx.check(consumed is not None, "R01.1", fn, "path:" + sig,
                          "an iteration of the token loop can finish (%s) without the token being appended, matched by an option/toggle or rejected: the argument is silently dropped (blocks %s)"
                          % (end, "-".join(map(str, path))), fn, why_ok="consumed as " + str(consumed))
                kinds[consumed] = kinds.get(consumed, 0) + 1
        ctx.tables["iteration_path_classes"] = kinds
        for want in ("positional", "separator", "option/toggle", "raise"):
            ctx.check(kinds.get(want, 0) >= 1, "R01.1", fn, "class-present:" + want, "no iteration path of the token loop handles a %s token any more" % want, fn)
        # appends outside the token loop: reuse C12's limit discipline (a tail loop must not drop tokens silently)
        lst = pl.positionals
        lim_eq = ("a", "(%s.size() == this.allowed_positionals_)" % lst)
        lim_lt = ("a", "(%s.size() < this.allowed_positionals_)" % lst)
        for bid2, i2, e2 in fn.roots():
            if bid2 in pl.body or bid2 not in pl.IN:
                continue
            for n2 in walk(e2["expr"], into_sc=False):
                if n2.get("k") == "call" and short(n2.get("name") or "") in ("push_back", "emplace_back") and fmt(n2.get("this")) == lst:
                    dom = cfg.dominators(fn)
                    rejecting = False
                    for gb in dom.get(bid2, ()):
                        c = fn.term(gb).get("cond")
                        if c is not None and "allowed_positionals_" in fmt(c) and lst in fmt(c):
                            for to, lab in fn.succs(gb):
                                if fn.is_noreturn(to) and any(exc == C04.ALLOWED for _, exc, _ in C04.raise_nodes(fn, to)):
                                    rejecting = True
                    ctx.check(rejecting, "R01.1", fn, "tail-copy-rejects-surplus",
                              "tokens are copied to the positional list at line %s outside the classifying loop under a bound that has no raising edge: tokens beyond the bound are dropped silently"
                              % n2.get("ln"), (fn, n2.get("ln")))

    # ---- R01.2
    tpos = [f for f in prog.find(NS + "parser::try_parse_as_option") if f.has_cfg]
    ctx.need("R01.2", "try_parse_as_option instantiations", len(tpos), 2)
    for f in tpos:
        upd = lambda e: any(is_update_call(n) for n in elem_calls(e))
        rets = []
        for bid, i, e in f.roots():
            x = e["expr"]
            if x.get("k") == "return":
                rets.append((bid, i, e, literal_value(x.get("e"))))
        ctx.need("R01.2", "returns in " + short(f.qual), len(rets), 2)
        ntrue = 0
        for bid, i, e, lv in rets:
            if lv == ("bool", True):
                ntrue += 1
                ok, path = cfg.must_precede(f, upd, lambda x, t=e: x is t)
                ctx.check(ok, "R01.2", f, "true-after-update", "try_parse_as_option can return true (line %s) on a path (B%s) without calling update_value: the token is reported as consumed but nothing is stored"
                          % (e.get("ln"), "->B".join(map(str, path or []))), (f, e.get("ln")))
            else:
                bad = None
                for (b2, i2, e2) in cfg.find_elems(f, upd):
                    if cfg.reaches_without(f, (b2, i2), lambda x, t=e: x is t, lambda x: False) is not None:
                        bad = e2
                ctx.check(bad is None, "R01.2", f, "no-update-when-not-true", "update_value (line %s) can be followed by a return of a non-true value (line %s): the option is changed but the token is then treated as unconsumed"
                          % (bad.get("ln") if bad else "?", e.get("ln")), (f, e.get("ln")))
        ctx.check(ntrue >= 1, "R01.2", f, "returns-true-somewhere", "try_parse_as_option never returns true", f)
        # the updated object is the matched one
        fe2 = facts.FactsEngine(prog, cg)
        IN, before = fe2.analyse(f)
        for bid, i, e in f.roots():
            for n in elem_calls(e):
                if is_update_call(n) and bid in IN:
                    recv = logic.objpath(n.get("this"))
                    st = before.get((bid, i)) or frozenset()
                    matched = [a for g in st for a in logic.atoms_of(g) if a.startswith(recv + ".matches(") or a.startswith("(*%s).matches(" % recv) or (".matches(" in a and recv.strip("()*") in a)]
                    okm = any(logic.entails(st, ("a", a), fe2.lg.axioms)[0] is True for a in matched)
                    ctx.check(okm, "R01.2", f, "update-on-matched@%s" % _rel(f, e), "update_value is applied to %s at line %s without a preceding positive matches() on that object" % (recv, e.get("ln")), (f, e.get("ln")))

    # ---- R01.3
    tt = one(ctx, "R01.3", NS + "parser::try_parse_as_toggle")
    if tt:
        fe3 = facts.FactsEngine(prog, cg)
        IN, before = fe3.analyse(tt)
        rets = [(b, i, e) for b, i, e in tt.roots() if e["expr"].get("k") == "return"]
        flag = None
        for b, i, e in rets:
            r = ir.unwrap(e["expr"].get("e"))
            if isinstance(r, dict) and r.get("k") == "ref" and r["decl"].startswith("local:"):
                flag = r["decl"][6:]
        if flag is None:
            ctx.broken("R01.3", tt, "flag", "try_parse_as_toggle does not return a local flag: idiom not recognised", tt)
        else:
            init = None
            sets = []
            for b, i, e in tt.roots():
                x = e["expr"]
                if x.get("k") == "decl":
                    for v in x.get("vars", []):
                        if v["name"] == flag:
                            init = literal_value(v.get("init"))
                for eff, lv, n in tree_effects(x, into_sc=False):
                    if eff == "write" and lv is not None and lvalue_root(lv)[:2] == ("local", flag):
                        sets.append((b, i, e, n))
            ctx.check(init == ("bool", False), "R01.3", tt, "flag-starts-false", "the match flag is initialised to %s" % (init,), tt)
            ctx.need("R01.3", "assignments of the match flag", len(sets), 1)
            upd = lambda e: any(is_update_call(n) for n in elem_calls(e))
            for b, i, e, n in sets:
                rhs_true = n.get("k") == "bin" and n["op"] == "=" and literal_value(n["r"]) == ("bool", True)
                st = before.get((b, i)) or frozenset()
                under_match = bool(cfg.dominated_by_edge(tt, b, lambda c: ir.unwrap(c).get("k") == "call" and short(ir.unwrap(c).get("name") or "") == "matches"))
                # an update_value call dominates the assignment within the same iteration (same block or a dominator inside the loop)
                dom = cfg.dominators(tt)
                upd_before = any((b2 == b and i2 < i) or (b2 != b and b2 in dom.get(b, ()) and any(b2 in body for h, body in cfg.loop_blocks(tt)))
                                 for (b2, i2, e2) in cfg.find_elems(tt, upd))
                ctx.check(rhs_true and under_match and upd_before, "R01.3", tt, "flag-set-after-update-under-match@%s" % _rel(tt, e),
                          "the match flag is set at line %s %s: a token can be reported as consumed by a toggle that was not updated" % (
                              e.get("ln"), "without matches()" if not under_match else ("without a preceding update_value" if not upd_before else "to a non-true value")),
                          (tt, e.get("ln")))

    # ---- R01.4
    for k in KINDS:
        f = one(ctx, "R01.4", NS + k + "::update_value")
        if not f:
            continue
        fld = VALUE_STATE[k]

        def writes(e, fld=fld):
            x = e.get("expr")
            if x is None:
                return False
            for eff, lv, n in tree_effects(x, into_sc=False):
                if eff in ("write", "maybe_write") and lv is not None:
                    kind, key, _ = lvalue_root(lv)
                    if kind == "field" and key[0] == fld and key[1] == "this":
                        return True
            return False

        ok, path = cfg.must_happen_before_exit(f, writes)
        ctx.check(ok, "R01.4", f, "consumes-observably", "%s::update_value can return (path B%s) without changing %s: the token is consumed with no effect" % (k, "->B".join(map(str, path or [])), short(fld)), f)

    # ---- R01.5
    lg = logic.Logic(prog, cg)
    bm = one(ctx, "R01.5", NS + "base::matches")
    tm = one(ctx, "R01.5", NS + "toggle::matches")
    for f in (bm, tm):
        if not f:
            continue
        pn = f.params[0]["name"]
        form = lg.fn_formula(f, {"this": None, "params": {}})
        if form is None:
            ctx.broken("R01.5", f, "matches-skeleton", "matches() is not a loop-free boolean function", f)
            continue
        own = []
        for a in sorted(logic.atoms_of(form)):
            if "==" in a and ("this.name()" in a or "this.name_" in a) and (pn + ".") in a:
                own.append(("a", a))
            if ".count(this.short_name())" in a or ".count(this.short_)" in a:
                # membership of the own letter: count(..) != 0 / 0 < count(..) / !(count(..) == 0)
                own.append(Not(("a", a)) if re.search(r"== 0\)$", a) else ("a", a))
        if not own:
            ctx.bad("R01.5", f, "true-only-under-own-name", "%s contains no comparison of the token with the option's own name() or short_name()" % short(f.qual), f)
            continue
        goal = own[0]
        for o in own[1:]:
            goal = Or(goal, o)
        r, cm = logic.entails([form], goal, lg.axioms)
        ctx.check(r is True, "R01.5", f, "true-only-under-own-name",
                  "%s can return true although the token equals neither the option's name nor contains its letter (state %s): a foreign token would be consumed"
                  % (short(f.qual), {k: v for k, v in (cm or {}).items() if v}), f, why_ok="true => " + logic.show(goal)[:160])
    # ---- R01.6: the value that accompanies an option reaches the result uncut (shared with C02's R02.1)
    ctx.rule("R01.6", "an option's value token is stored whole (no part of the argument is silently dropped) - R02.1 re-evaluated")
    from . import C02
    sub = type(ctx)(ctx.prop, ctx.prog, ctx.tier)
    C02.run(sub)
    n6 = 0
    for o in sub.obs:
        if o.rule == "R02.1":
            n6 += 1
            o.rule = "R01.6"
            ctx.obs.append(o)
    ctx.need("R01.6", "value transport obligations", n6, 6)
    ctx.assume("letter-level accounting inside bundles (every letter of -abc is a declared, counted toggle) is NOT decided: "
               "`-vz` with z undeclared and `-vo file` losing v are accepted today (genuine, see DESIGN.md section 6)")


def _rel(f, e):
    return "+%d" % ((e.get("ln") or f.line) - f.line)


def _sig(fn, path, end):
    sig = []
    for a, b in zip(path, path[1:]):
        t = fn.term(a)
        if t.get("cond") is not None and len(fn.succs(a)) == 2:
            for to, lab in fn.succs(a):
                if to == b:
                    sig.append(("+" if lab == "true" else "-") + fmt(t["cond"])[:24])
    return "/".join(sig)[:170] + ">" + end
