"""Scope-wide rules added in round 12 (DESIGN.md section 25). They are evaluated inside every property's check, over the source
files the property is anchored in (SCOPE below), after the property's own rules - in every configuration the check evaluates.

  Rxx.S1  no-dynamic-namespace-state   a function of the scope reads no namespace-scope object / static data member of /repo whose
                                      initialisation is dynamic: until the initialisers of the defining unit have run the object is
                                      zero-initialised, so the function gives another result when a static initialiser of another
                                      unit calls it (function-local statics are initialised on first use and are fine)
  Rxx.S2  errno-cleared-before-read   a function of the scope that reads errno has assigned 0 to it on every path to that read
                                      (the C library only ever sets errno, a stale value from anything the process did before decides)
  Rxx.S3  layout-same-in-every-configuration   (driver, see check) the data members of the scope's classes are the same in every
                                      configuration the sources can be compiled in - a header-only class whose layout follows the
                                      including unit's NDEBUG is read with the wrong stride by a unit compiled the other way
  Rxx.S4  effects-same-in-every-configuration  (driver) the writes and mutating calls of the scope's functions are the same in every
                                      configuration: a side effect inside assert() is gone in a release build
"""
from sa.ir import walk, short

OPTIONS = ("/options/", "env/get.cpp", "env/get.hpp", "lang/optional.hpp", "lang/string.hpp", "io/terminal.hpp", "format/format.hpp", "/except/")
LOG = ("/nitro/log/", "lang/string_ref.hpp", "lang/tuple_foreach.hpp", "lang/string.hpp", "/except/", "format/format.hpp")
SCOPE = {
    "C01": OPTIONS, "C02": OPTIONS, "C03": OPTIONS, "C04": OPTIONS, "C11": OPTIONS, "C12": OPTIONS, "C13": OPTIONS, "C14": OPTIONS,
    "C15": OPTIONS,
    "C05": LOG, "C09": LOG, "C10": LOG,
    "C06": ("lang/fixed_vector.hpp", "/except/", "format/format.hpp"),
    "C07": ("lang/fixed_vector.hpp", "/except/", "format/format.hpp"),
    "C08": ("format/format.hpp", "nitro/format.hpp", "/except/"),
    "C16": ("lang/hash.hpp", "lang/tuple_operators.hpp", "lang/unordered.hpp", "lang/tuple_foreach.hpp", "meta/std_hashable.hpp"),
    "C17": ("lang/string.hpp",),
    "C18": ("lang/optional.hpp", "lang/quaint_ptr.hpp"),
    "C19": ("/nitro/dl/", "/env/", "/except/", "format/format.hpp"),
    "C20": ("lang/enumerate.hpp", "lang/reverse.hpp"),
}


def in_scope(prop):
    pats = SCOPE.get(prop, ())

    def pred(path):
        return path.startswith("/repo/") and any((p in path) if p.startswith("/") else path.endswith(p) for p in pats)
    return pred


def rid(ctx, n):
    return "R%s.S%d" % (ctx.prop[1:], n)


def scope_functions(ctx):
    pred = in_scope(ctx.prop)
    seen = set()
    out = []
    for f in sorted(ctx.prog.fns.values(), key=lambda g: g.id):
        if not f.has_cfg or not pred(f.file):
            continue
        out.append(f)
    return out


def _dynamic_refs(f, repo_only=True):
    """[(ref node, root line)] - references of f (body and default arguments) to namespace-scope objects / static data members with dynamic initialisation"""
    out = []
    roots = [(e.get("expr"), e.get("ln")) for bid, i, e in f.all_elems()]
    roots += [(p.get("default"), f.line) for p in (f.d.get("params") or []) if isinstance(p.get("default"), dict)]
    for x, xln in roots:
        if not isinstance(x, dict):
            continue
        for n in walk(x):
            if not isinstance(n, dict) or n.get("k") != "ref" or n.get("storage") not in ("namespace", "static_member"):
                continue
            if repo_only and not (n.get("decl_file") or "").startswith("/repo/"):
                continue
            kind = n.get("init_kind")
            if kind == "dependent" and n.get("storage") == "static_member" and not n.get("constexpr"):
                kind = "dynamic"
            if kind == "dynamic":
                out.append((n, xln))
    return out


def _errno_discipline(f):
    """None when f does not read errno, else True / False: every read is preceded by `errno = 0` on every path"""
    from sa import cfg as _cfg

    def is_clear(e):
        x = e.get("expr")
        return isinstance(x, dict) and _is_errno(x) and _clears_errno(x)

    def is_read(e):
        x = e.get("expr")
        return isinstance(x, dict) and _is_errno(x) and not _clears_errno(x)
    if not _cfg.find_elems(f, is_read):
        return None
    return _cfg.must_precede(f, is_clear, is_read)[0]


def _fixtures(ctx):
    """the zero-expected rules S1 / S2 / S7 on their positive and negative examples (fixtures/facts_fixtures.cpp)"""
    from .common import fx
    pairs = (
        (1, "reads_dynamic_namespace_state", True, lambda g: bool(_dynamic_refs(g, repo_only=False))),
        (1, "reads_constant_namespace_state", False, lambda g: bool(_dynamic_refs(g, repo_only=False))),
        (2, "errno_stale", True, lambda g: _errno_discipline(g) is False),
        (2, "errno_cleared", False, lambda g: _errno_discipline(g) is False),
        (7, "widens_plain_char", True, lambda g: bool(_sign_extended_sites(g))),
        (7, "widens_unsigned_char", False, lambda g: bool(_sign_extended_sites(g))),
    )
    for k, name, expect, pred in pairs:
        g = fx(ctx, name)
        if g is None:
            continue
        ctx.fixture(rid(ctx, k), name, pred(g), expect, "recogniser behaves on vfix::%s" % name)


def rule_no_dynamic_namespace_state(ctx):
    rule = rid(ctx, 1)
    ctx.rule(rule, "no-dynamic-namespace-state: the functions of the property's source files read no namespace-scope object or static data "
                   "member of /repo that is initialised dynamically (static initialisation order: a caller that runs before the defining "
                   "unit's initialisers sees a zero-initialised object)")
    fns = scope_functions(ctx)
    nrefs = 0
    reported = set()
    for f in fns:
        roots = [(e.get("expr"), e.get("ln")) for bid, i, e in f.all_elems()]
        roots += [(p.get("default"), f.line) for p in (f.d.get("params") or []) if isinstance(p.get("default"), dict)]
        for x, xln in roots:
            if not isinstance(x, dict):
                continue
            for n in walk(x):
                if not isinstance(n, dict) or n.get("k") != "ref" or n.get("storage") not in ("namespace", "static_member"):
                    continue
                if not (n.get("decl_file") or "").startswith("/repo/"):
                    continue
                nrefs += 1
                kind = n.get("init_kind")
                if kind == "dependent" and n.get("storage") == "static_member" and not n.get("constexpr"):
                    kind = "dynamic"  # a static data member of a class template whose type follows the template arguments
                if kind != "dynamic":
                    continue
                name = n.get("decl") or "?"
                key = (f.file, f.line, name)
                if key in reported:
                    continue
                reported.add(key)
                ctx.bad(rule, f, "reads-dynamically-initialised:%s" % short(str(name)),
                        "%s reads `%s` (%s in %s), whose initialisation runs code at program start: called from a static initialiser of "
                        "another translation unit - before this object's initialiser ran - it sees a zero-initialised object and gives "
                        "another result than from main()" % (short(f.qual), short(str(name)), n.get("storage"), (n.get("decl_file") or "").replace("/repo/", "")),
                        (f, xln or x.get("ln")))
    ctx.need(rule, "functions of the property's files scanned for namespace-scope state", len(fns), 3)
    ctx.ok(rule, "-", "no-dynamic-namespace-state:scanned", "%d function(s), %d reference(s) to namespace-scope objects / static data members of /repo" % (len(fns), nrefs), "-")


def _is_errno(n):
    """`errno` is `(*__errno_location())`"""
    if not isinstance(n, dict):
        return False
    for m in walk(n):
        if isinstance(m, dict) and m.get("k") == "call" and (m.get("name") == "__errno_location" or str(m.get("callee") or "").startswith("__errno_location")):
            return True
    return False


def _clears_errno(x):
    for n in walk(x):
        if isinstance(n, dict) and n.get("k") == "bin" and n.get("op") == "=" and _is_errno(n.get("l")) and isinstance(n.get("r"), dict):
            r = n["r"]
            while isinstance(r, dict) and r.get("k") in ("cast", "paren") and isinstance(r.get("e"), dict):
                r = r["e"]
            if r.get("k") == "lit" and r.get("v") == 0:
                return True
    return False


def rule_errno_cleared(ctx):
    from sa import cfg as _cfg
    rule = rid(ctx, 2)
    ctx.rule(rule, "errno-cleared-before-read: a function that reads errno assigns 0 to it on every path to the read, in the same function")
    fns = scope_functions(ctx)
    nreads = 0
    for f in fns:
        def is_clear(e):
            x = e.get("expr")
            return isinstance(x, dict) and _is_errno(x) and _clears_errno(x)

        def is_read(e):
            x = e.get("expr")
            return isinstance(x, dict) and _is_errno(x) and not _clears_errno(x)
        reads = _cfg.find_elems(f, is_read)
        if not reads:
            continue
        nreads += len(reads)
        okp, path = _cfg.must_precede(f, is_clear, is_read)
        ctx.check(okp, rule, f, "errno-read:%s" % short(f.qual),
                  "%s reads errno without having cleared it on every path to that read (blocks %s): the C library never resets errno, so a "
                  "value left by anything the process did before (an earlier failed call, another library) decides the outcome" % (short(f.qual), "-".join(str(b) for b in (path or []))),
                  (f, reads[0][2].get("ln")), "errno = 0 precedes every read of errno")
    ctx.ok(rule, "-", "errno-cleared-before-read:scanned", "%d function(s), %d read(s) of errno" % (len(fns), nreads), "-")


def run(ctx):
    if ctx.prop not in SCOPE:
        return
    rule_no_dynamic_namespace_state(ctx)
    rule_errno_cleared(ctx)
    _fixtures(ctx)
    rule_special_members(ctx)
    rule_probes(ctx)
    rule_no_sign_extended_char(ctx)
    rule_result_owns(ctx)


# ------------------------------------------------------------------------------------------------------------------------------
# S3 / S4: what must be the same in every configuration (called by the driver for every extra configuration it evaluates)

def _layout(c):
    return [(fl.get("name"), (fl.get("type") or "").replace("class ", "").replace("struct ", ""), bool(fl.get("static"))) for fl in c.get("fields", [])] + \
           [("<base>", b.get("type") or b.get("name"), False) for b in c.get("bases", [])]


_PURE = {}


def _pure_repo_fn(prog, fid, depth=0):
    """a function of /repo whose body (transitively, through /repo callees) has none of the effects below: calling it changes nothing -
    e.g. fixed_vector's non-const begin() / end() / data()"""
    if fid in _PURE:
        return _PURE[fid]
    g = prog.fns.get(fid) if prog is not None else None
    if g is None or not g.has_cfg or not (g.file or "").startswith("/repo/") or depth > 6:
        return False
    _PURE[fid] = True  # recursion: assume pure while looking
    res = not _effects(g, prog, depth + 1)
    _PURE[fid] = res
    return res


def _effects(f, prog=None, depth=0):
    """multiset of the state-changing constructs of f, position free: built-in assignments / increments, calls of non-const member
    functions (standard lookups that only hand out a position and effect-free functions of /repo excepted), delete, and raises"""
    from collections import Counter
    from sa.ir import fmt
    from .common import std_lookup
    out = Counter()
    for bid, i, e in f.all_elems():
        x = e.get("expr")
        if not isinstance(x, dict):
            continue
        for n in walk(x):
            if not isinstance(n, dict):
                continue
            k = n.get("k")
            if k == "bin" and (n.get("op") or "").endswith("=") and n.get("op") not in ("==", "!=", "<=", ">="):
                out["assign %s %s" % (n.get("op"), fmt(n.get("l")))] += 1
            elif k == "un" and (n.get("op") or "")[:2] in ("++", "--"):
                out["%s %s" % (n.get("op"), fmt(n.get("e")))] += 1
            elif k == "delete":
                out["delete"] += 1
            elif k in ("call", "subscript") and n.get("callee"):
                cal = str(n.get("callee"))
                name = n.get("name") or cal
                if name in ("__assert_fail", "__assert_perror_fail", "__assert"):
                    continue
                sig = cal.split("#<")[0]
                is_member = n.get("this") is not None
                const = sig.rstrip().endswith(") const") or sig.rstrip().endswith(") const &&")
                if std_lookup(n) or k == "subscript":
                    continue
                if n.get("noreturn") or short(name) in ("raise",):
                    out["raise %s" % name] += 1
                elif is_member and not const and not n.get("static_method"):
                    if prog is not None and _pure_repo_fn(prog, cal, depth):
                        continue
                    out["call %s" % name] += 1
            elif k == "throw":
                out["throw"] += 1
    return out


def compare_configuration(ctx, prog2, label, where):
    """S3 + S4 for one extra configuration (prog2) against the default one (ctx.prog)"""
    pred = in_scope(ctx.prop)
    r3, r4 = rid(ctx, 3), rid(ctx, 4)
    ctx.rule(r3, "layout-same-in-every-configuration: the data members and bases of the classes in the property's files do not depend on a "
                 "build-time switch (units compiled with and without it exchange these objects by value, reference or in containers)")
    ctx.rule(r4, "effects-same-in-every-configuration: assignments, calls of non-const member functions and raises of a function are the same "
                 "with and without the switch (a side effect written inside assert(), or a check compiled only into debug builds)")
    ncls = 0
    for name, c in sorted(ctx.prog.classes.items()):
        if not pred(c.get("file") or ""):
            continue
        c2 = prog2.classes.get(name)
        if c2 is None:
            continue
        ncls += 1
        a, b = _layout(c), _layout(c2)
        if a != b:
            da = [x for x in a if x not in b]
            db = [x for x in b if x not in a]
            ctx.bad(r3, name, "layout:%s [%s]" % (short(name), label),
                    "%s has other data members in the configuration %s (%s): only without it %s, only with it %s - a unit compiled one way reads objects "
                    "created by a unit compiled the other way at the wrong offsets (header-only class, NDEBUG belongs to the including unit)"
                    % (short(name), label, where.replace("/repo/", ""), [("%s %s" % (t, n)) for n, t, s in da] or "-", [("%s %s" % (t, n)) for n, t, s in db] or "-"),
                    "%s:%s" % (c.get("file"), c.get("line")))
    nfn = 0
    for f in scope_functions(ctx):
        g = prog2.fns.get(f.id)
        if g is None or not g.has_cfg:
            continue
        nfn += 1
        _PURE.clear()
        ea = _effects(f, ctx.prog)
        _PURE.clear()
        eb = _effects(g, prog2)
        if ea == eb:
            continue
        gone = sorted((ea - eb).elements())
        new = sorted((eb - ea).elements())
        ctx.bad(r4, f, "effects:%s [%s]" % (short(f.qual), label),
                "%s changes state differently in the configuration %s (%s): only without it %s; only with it %s - what stands inside assert() or "
                "#ifndef NDEBUG is gone in a release build" % (short(f.qual), label, where.replace("/repo/", ""), gone or "-", new or "-"), f)
    ctx.ok(r3, "-", "layout-same:%s" % label, "%d class(es) compared" % ncls, "-")
    ctx.ok(r4, "-", "effects-same:%s" % label, "%d function(s) compared" % nfn, "-")


def rule_special_members(ctx):
    """S5: G-special-members over the classes of the property's files"""
    from .common import rule_special_members_complete
    pred = in_scope(ctx.prop)
    names = {cn for cn, c in ctx.prog.classes.items() if pred(c.get("file") or "") and cn not in DEEP_COPY}
    rule = rid(ctx, 5)
    ctx.rule(rule, "special-members-complete: a hand-written copy / move operation of a class in the property's files takes over every data member")
    rule_special_members_complete(ctx, rule, lambda cn: cn in names, "the copy / the moved-to object differs from its source in that member", minimum=0)


# classes whose hand-written copy operations copy by content, not member by member (decided by their own rules)
DEEP_COPY = {
    "nitro::lang::optional": "owns its value through a pointer: copies are made from the pointee, never member-wise (R18.4 / R18.5 decide them)",
    "nitro::lang::fixed_vector": "copies / assigns through a freshly built container and a swap of all three members (R07.1, R07.2, R06.7 decide them)",
}


# ------------------------------------------------------------------------------------------------------------------------------
# S6: overload-resolution probes (witness/facts_probes.cpp)

def _param_types(g):
    return [(p.get("type") or "") for p in g.params]


def _is_index_type(t):
    return t.replace("const ", "").strip() in ("std::size_t", "size_t", "unsigned long", "std::vector::size_type", "size_type") or "size_type" in t


PROBES = {
    # property: [(probe function, which calls, expectation(g) -> (ok, text), what goes wrong otherwise)]
    "C02": [("vprobe::as_with_index", "as",
             lambda g: (len(g.params) == 2 and _is_index_type(_param_types(g)[1]), "the element accessor as<T>(name, std::size_t)"),
             "the index is taken for something else (an overload whose second parameter matches the argument's type exactly wins over the conversion to std::size_t): "
             "the element the command line gave is not what as<T>(name, i) returns")],
    "C03": [("vprobe::default_from_convertible", "default_value",
             lambda g: (len(g.params) == 1 and ("std::string" in _param_types(g)[0] or "basic_string" in _param_types(g)[0] or "vector<" in _param_types(g)[0]) and not g.flags.get("instantiation"),
                        "default_value(const std::string&) / (const std::vector<std::string>&)"),
             "a default handed over as an object that converts to std::string is rendered through another route (a template overload is an exact match and beats the conversion): "
             "the third-rank source delivers another text than the one declared")],
}
PROBES["C15"] = PROBES["C03"]  # the usage text lists the declared default: the same probe
PROBES["C12"] = []


def rule_probes(ctx):
    rule = rid(ctx, 6)
    probes = PROBES.get(ctx.prop) or []
    if not probes:
        return
    from .common import elem_calls
    ctx.rule(rule, "overload-resolution probes (witness/facts_probes.cpp): calls a user may write select the documented function")
    n = 0
    for qual, callname, expect, what in probes:
        wf = [f for f in ctx.prog.find(qual) if f.has_cfg]
        if not ctx.anchor(rule, qual, bool(wf)):
            continue
        for bid, i, e in wf[0].all_elems():
            for c in elem_calls(e):
                if short(c.get("name") or "") != callname or not (c.get("name") or "").startswith("nitro::"):
                    continue
                n += 1
                from sa.ir import fmt
                g = ctx.prog.fn(c.get("callee")) if c.get("callee") else None
                if g is None:
                    ctx.broken(rule, wf[0], "probe:%s" % fmt(c)[:60], "the selected function is not in the facts", (wf[0], e.get("ln")))
                    continue
                ok, want = expect(g)
                ctx.check(ok, rule, wf[0], "probe:%s" % fmt(c)[:60], "`%s` selects %s instead of %s: %s" % (fmt(c)[:80], g.id[:140], want, what), (wf[0], e.get("ln")), why_ok=g.id[:100])
    ctx.need(rule, "probe calls", n, 3)


def _sign_extended_sites(f):
    """[(text, target name, bits, line)] - declarations, assignments and explicit casts of f that widen a plain char into an unsigned type wider than a byte"""
    from sa import ir
    from sa.ir import fmt

    def signed_byte(x):
        x = ir.unwrap(x)
        while isinstance(x, dict) and x.get("k") == "paren" and isinstance(x.get("e"), dict):
            x = ir.unwrap(x["e"])
        if not isinstance(x, dict) or x.get("k") == "lit":
            return False
        if x.get("k") == "cast":
            return False  # an explicit cast says what it wants (judged as a cast node of its own)
        t = (x.get("type") or "").replace("const ", "").replace("&", "").strip()
        return (x.get("bits") == 8 and not x.get("u") and "bool" not in t and "unsigned" not in t and "uint8" not in t and "int8_t" not in t) or t in ("char", "signed char")

    def wide_unsigned(n):
        return isinstance(n, dict) and bool(n.get("u")) and isinstance(n.get("bits"), int) and n["bits"] > 8
    out = []
    for bid, i, e in f.all_elems():
        x = e.get("expr")
        if not isinstance(x, dict):
            continue
        for n in walk(x):
            if not isinstance(n, dict):
                continue
            if n.get("k") == "decl":
                for v in n.get("vars", []):
                    if wide_unsigned(v) and v.get("init") is not None and signed_byte(v["init"]):
                        out.append(("`%s %s = %s`" % (v.get("type"), v.get("name"), fmt(v["init"])[:50]), v.get("name"), v.get("bits") or 64, e.get("ln")))
            elif n.get("k") == "bin" and n.get("op") == "=" and wide_unsigned(ir.unwrap(n.get("l"))) and signed_byte(n.get("r")):
                out.append(("`%s`" % fmt(n)[:70], fmt(n.get("l"))[:30], 64, e.get("ln")))
            elif n.get("k") == "cast" and wide_unsigned(n) and n.get("ck") in ("static", "c", "functional") and signed_byte(n.get("e")):
                out.append(("`%s`" % fmt(n)[:70], "cast", n.get("bits") or 64, e.get("ln")))
    return out


def rule_no_sign_extended_char(ctx):
    """S7: a plain `char` (signed on this platform) is not widened into an unsigned integer wider than a byte - every byte >= 0x80 becomes a huge
    number (0xE4 -> 0xFFFFFFFFFFFFFFE4): a table index, a bound check or a key computed from it treats non-ASCII letters differently"""
    rule = rid(ctx, 7)
    ctx.rule(rule, "no-sign-extended-char: no initialisation, assignment or cast widens a plain char into an unsigned integer type wider than 8 bits (static_cast<unsigned char> first is the cure)")
    fns = scope_functions(ctx)
    seen = set()
    for f in fns:
        if (f.file, f.line) in seen and f.is_pattern:
            continue
        seen.add((f.file, f.line))
        for text, target, bits, ln in _sign_extended_sites(f):
            ctx.bad(rule, f, "sign-extended-char:%s:%s" % (short(f.qual), target),
                    "%s widens a plain char into an unsigned %s-bit value in %s: for a byte >= 0x80 (any non-ASCII letter) char is negative here and the result is a number near 2^64 - "
                    "comparisons, table indices and keys computed from it single out those letters" % (short(f.qual), bits, text), (f, ln))
    ctx.ok(rule, "-", "no-sign-extended-char:scanned", "%d function(s)" % len(fns), "-")


def rule_result_owns(ctx):
    """S8 (options scope): the result of a parse is a value - `arguments` holds what it reports itself. Pointers to the declared option objects are the
    one exception (options never change address: they live in node-based maps of the parser). A pointer / reference / view into a container that
    the parser owns is overwritten by the next parse() and dangles after a parser move: an earlier result reports another command line's words"""
    if ctx.prop not in ("C01", "C12", "C14"):
        return
    import re
    rule = rid(ctx, 8)
    ctx.rule(rule, "result-owns-what-it-reports: every data member of options::arguments is held by value, or refers to declared option objects only")
    c = ctx.prog.classes.get("nitro::options::arguments")
    if not ctx.anchor(rule, "nitro::options::arguments", c is not None):
        return
    n = 0
    for fl in c.get("fields", []):
        if fl.get("static"):
            continue
        n += 1
        t = (fl.get("type") or "")
        non_owning = bool(fl.get("ptr") or fl.get("ref")) or re.search(r"reference_wrapper|string_view|string_ref|\bspan<", t) is not None
        to_options = re.search(r"\b(option|multi_option|toggle|base)\b", t) is not None and "vector" not in t.split("<")[0]
        ctx.check(not non_owning or to_options, rule, "nitro::options::arguments", "member-owned:%s" % fl.get("name"),
                  "arguments::%s has the non-owning type `%s`: the result of one parse() reports through it whatever the parser holds NOW - the next parse() on the same "
                  "parser rewrites it, a moved or destroyed parser leaves it dangling" % (fl.get("name"), t), "%s:%s" % (c.get("file"), c.get("line")), why_ok=t)
    ctx.need(rule, "data members of options::arguments", n, 2)
