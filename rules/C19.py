"""C19 - environment and dlopen wrappers report faithfully and keep libraries mapped.

R19.1 (A2/A3/A6) both env::get overloads: the default is returned (resp. the raise is reached) under a condition equivalent
      to getenv(name.c_str()) == nullptr; otherwise the result is std::string(tmp) of that same pointer, unmodified.
R19.2 (A9) both dl constructors: the handle member is a std::shared_ptr<void> built from the dlopen result with a deleter
      that calls dlclose on its argument under a non-null test; a null handle leads to raise<dl::exception> whose first
      argument is a fresh dlerror() result.
R19.3 (A5) dlclose is called only inside those deleters.
R19.4 (A7/AST) symbol holds a std::shared_ptr<void> BY VALUE initialised from its constructor parameter; dl::load passes the
      dl's own handle.
R19.5 (A1) symbol's constructor: dlerror() (clear), then dlsym, then dlerror() whose non-null result leads to
      raise<dl::exception>(error, ...); no other dl* call intervenes; the symbol address itself is not tested for null.
R19.6 (A6) dl::exception stores the diagnostic string it was given.
"""
import re

from sa import ir, cfg, logic, facts, valueflow
from sa.ir import fmt, walk, short
from sa.logic import Not
from .common import callgraph, elem_calls, const_int
from . import C04

DL_EXC = "nitro::dl::exception"


def dl_calls(e):
    out = []
    if e.get("expr") is None:
        return out
    for n in walk(e["expr"], into_sc=False):
        if n.get("k") == "call" and (n.get("name") or "") in ("dlerror", "dlsym", "dlopen", "dlclose", "dlvsym", "dlinfo", "dladdr"):
            out.append(n)
    return out


def run(ctx):
    prog = ctx.prog
    cg = callgraph(ctx)
    fe = facts.FactsEngine(prog, cg)
    lg = fe.lg
    for r, d in (("R19.1", "env::get decides on getenv()==nullptr only and returns the value unmodified"), ("R19.2", "dl handle: shared_ptr with null-safe dlclose deleter; failure raises dl::exception(dlerror())"),
                 ("R19.3", "dlclose only in the handle deleters"), ("R19.4", "symbol keeps the library alive by value"), ("R19.5", "dlerror-clear / dlsym / dlerror-check ordering"), ("R19.6", "dl::exception keeps the diagnostic")):
        ctx.rule(r, d)

    # ---- R19.1
    gets = [f for f in prog.find("nitro::env::get") if f.has_cfg]
    ctx.need("R19.1", "env::get overloads", len(gets), 2)
    for f in gets:
        tag = "no_default" if "no_default_t" in f.id else "default"
        IN, before = fe.analyse(f)
        name = f.params[0]["name"]
        # the getenv result
        var = None
        for bid, i, e in f.roots():
            for n in walk(e["expr"], into_sc=False):
                if n.get("k") == "bin" and n["op"] == "=" and ir.unwrap(n["r"]).get("k") == "call" and short(ir.unwrap(n["r"]).get("name") or "") == "getenv":
                    var = fmt(n["l"])
                    arg = fmt(ir.unwrap(n["r"])["args"][0]) if ir.unwrap(n["r"]).get("args") else ""
                if n.get("k") == "decl":
                    for v in n.get("vars", []):
                        init = ir.unwrap(v.get("init"))
                        if isinstance(init, dict) and init.get("k") == "call" and short(init.get("name") or "") == "getenv":
                            var = v["name"]
                            arg = fmt(init["args"][0]) if init.get("args") else ""
        if var is None:
            # delegation to the other overload is not the getenv idiom: the null test is then lost
            ctx.bad("R19.1", f, "decides-on-getenv-null:" + tag, "env::get(%s) does not call getenv itself: 'unset' can no longer be told apart from 'set to the empty string'" % tag, f)
            continue
        ctx.check(arg == "%s.c_str()" % name, "R19.1", f, "looks-up-its-argument:" + tag, "getenv is called with %s" % arg, f)
        isnull = Not(("a", "nonnull(%s)" % var))
        # the 'unset' outcome: return of the default / raise
        for bid in sorted(IN):
            st = IN[bid]
            unset_block = False
            if tag == "no_default" and f.is_noreturn(bid):
                unset_block = True
            for e in f.elems(bid):
                x = e.get("expr")
                if isinstance(x, dict) and x.get("k") == "return":
                    r = ir.unwrap(x.get("e"))
                    src_default = tag == "default" and len(f.params) > 1 and re.search(r"\b%s\b" % f.params[1]["name"], fmt(r)) is not None
                    if src_default:
                        unset_block = True
                    else:
                        # value outcome: std::string(tmp) exactly, under tmp != nullptr
                        ok_val = fmt(r) in ("functional_cast<std::string>(basic_string{%s, allocator{}})" % var, "basic_string{%s, allocator{}}" % var, "basic_string{%s}" % var)
                        if not ok_val:
                            # std::string(tmp, n) with n = char_traits<char>::length(tmp) / strlen(tmp) - the one-argument constructor written out
                            m2 = re.fullmatch(r"(?:functional_cast<std::string>\()?basic_string\{%s, (\w+)(?:, allocator\{\})?\}\)?" % re.escape(var), fmt(r))
                            if m2:
                                ln_name = m2.group(1)
                                inits = [fmt(ir.unwrap(v0["init"])) for _, _, e0 in f.roots() if e0["expr"].get("k") == "decl" for v0 in e0["expr"]["vars"] if v0["name"] == ln_name and v0.get("init") is not None and (v0.get("type") or "").startswith("const ")]
                                ok_val = len(inits) == 1 and inits[0] in ("length(%s)" % var, "strlen(%s)" % var, "std::strlen(%s)" % var)
                        ctx.check(ok_val, "R19.1", f, "returns-value-verbatim:" + tag, "a set variable is returned as %s instead of std::string(%s)" % (fmt(r)[:80], var), (f, e.get("ln")))
                        rr, _ = logic.entails(st, ("a", "nonnull(%s)" % var), lg.axioms)
                        ctx.check(rr is True, "R19.1", f, "value-only-when-set:" + tag, "std::string(%s) is constructed although %s may be null" % (var, var), (f, e.get("ln")))
            if unset_block:
                # equivalence: reached exactly when getenv returned null -> facts entail null, and no other condition
                rr, _ = logic.entails(st, isnull, lg.axioms)
                extra = [logic.show(g) for g in st if g != isnull and not g[0] == "c"]
                ctx.check(rr is True and not extra, "R19.1", f, "unset-iff-getenv-null:" + tag,
                          "the %s is reached under %s, not exactly `%s == nullptr`: a variable set to the empty string is treated as unset (or an unset one as set)"
                          % ("default" if tag == "default" else "error", [logic.show(g) for g in st] or "no condition", var), (f, None))
        # every path from the null test: also the converse - when tmp is null the value branch is not taken: covered by value-only-when-set

    # ---- R19.2 / R19.3
    ctors = [f for f in prog.methods_of("nitro::dl::dl") if f.kind == "ctor" and f.has_cfg and not f.flags.get("implicit") and not f.flags.get("copy_ctor") and not f.flags.get("move_ctor")]
    ctx.need("R19.2", "dl constructors", len(ctors), 2)
    dcls = prog.cls("nitro::dl::dl")
    if ctx.anchor("R19.2", "nitro::dl::dl", dcls is not None):
        h = [fl for fl in dcls["fields"] if fl["name"] == "handle"]
        ctx.check(bool(h) and h[0]["type"].replace(" ", "") == "std::shared_ptr<void>", "R19.2", "nitro::dl::dl", "handle-is-shared_ptr", "dl::handle has type %s" % (h[0]["type"] if h else "?"), "%s:%d" % (dcls["file"], dcls["line"]))
    deleters = set()
    for f in ctors:
        tag = "self" if "self_tag" in f.id else "file"
        init = None
        for _, _, e in f.all_elems():
            if e["kind"] == "init" and short(e.get("field") or "") == "handle":
                init = ir.unwrap(e["expr"])
        if not (isinstance(init, dict) and init.get("k") == "construct" and len(init.get("args", [])) >= 1):
            ctx.broken("R19.2", f, "handle-init:" + tag, "handle is not initialised by a shared_ptr construction", f)
            continue
        a0 = ir.unwrap(init["args"][0])
        ctx.check(isinstance(a0, dict) and a0.get("k") == "call" and (a0.get("name") or "") == "dlopen", "R19.2", f, "handle-from-dlopen:" + tag, "the handle is built from %s" % fmt(a0), f)
        # the mode: complete binding at open (every diagnostic of the loader surfaces as the exception of THIS call) and a
        # close that really closes (no NODELETE), of a library that is really loaded (no NOLOAD)
        if isinstance(a0, dict) and a0.get("k") == "call" and (a0.get("name") or "") == "dlopen" and len(a0.get("args", [])) >= 2:
            bits = {}
            for g in prog.find("vwit::rtld_bits"):
                for _, _, e in g.roots():
                    for r in walk(e["expr"]):
                        if r.get("k") == "ref" and r.get("const_init") is not None:
                            bits[r["decl"].split("::")[-1]] = const_int(r)
            mode = const_int(a0["args"][1])
            if len(bits) < 4 or any(v is None for v in bits.values()):
                ctx.broken("R19.2", f, "open-mode:" + tag, "the platform's RTLD_* values are not available from the witness unit (%s)" % bits, f)
            elif mode is None:
                ctx.broken("R19.2", f, "open-mode:" + tag, "the mode argument %s of dlopen is not a constant expression" % fmt(a0["args"][1]), f)
            else:
                why = []
                if not mode & bits["rtld_now"]:
                    why.append("RTLD_NOW is not set: with lazy binding a library that references a function nobody provides opens without an error, the loader's diagnostic never becomes the "
                               "dl exception and the first call through the unresolved reference kills the process")
                if mode & bits["rtld_nodelete"]:
                    why.append("RTLD_NODELETE is set: the dlclose issued when the last owner dies is ignored, the library is never closed")
                if mode & bits["rtld_noload"]:
                    why.append("RTLD_NOLOAD is set: a library that is not resident already is not opened")
                ctx.check(not why, "R19.2", f, "open-mode:" + tag, "dlopen is called with mode %s (= %#x): %s" % (fmt(a0["args"][1]), mode, "; ".join(why)), f, why_ok="%s = %#x" % (fmt(a0["args"][1]), mode))
        if len(init["args"]) < 2:
            ctx.bad("R19.2", f, "deleter-present:" + tag, "the shared_ptr has no deleter: the library is never closed (and `delete` on a void* handle is undefined)", f)
            continue
        d = ir.unwrap(init["args"][1])
        while isinstance(d, dict) and d.get("k") == "cast":
            d = ir.unwrap(d["e"])
        body = None
        if isinstance(d, dict) and d.get("k") == "lambda":
            body = prog.fn((d.get("bodies") or [d.get("id")])[0])
        elif isinstance(d, dict) and d.get("k") in ("construct", "init_list", "value_init") and not [a for a in d.get("args", d.get("elems", [])) if not (isinstance(a, dict) and a.get("k") == "defarg")]:
            # a stateless function object of a class of this header: its call operator is the deleter
            cname = d.get("name") or d.get("type") or ""
            ops = [h for h in prog.fns.values() if h.has_cfg and h.op == "()" and h.file == f.file and (h.cls or "").split("::")[-1] == short(cname).split("::")[-1] and len(h.params) == 1]
            body = ops[0] if len(ops) == 1 else None
        else:
            # a named function of the library handed over by address (`&dl::close_handle`, `close_handle`)
            r = d
            if isinstance(r, dict) and r.get("k") == "un" and r.get("op") == "&":
                r = ir.unwrap(r["e"])
            if isinstance(r, dict) and r.get("k") == "ref" and str(r.get("decl", "")).startswith("fn:"):
                g = prog.fn(r["decl"][3:])
                if g is not None and g.has_cfg and g.file.startswith("/repo/") and len(g.params) == 1:
                    body = g
        if body is None:
            ctx.bad("R19.2", f, "deleter-null-safe:" + tag,
                    "the deleter is %s, not a function that tests its argument: shared_ptr runs the deleter also for a null handle, so a failed dlopen ends in dlclose(NULL) while the exception unwinds" % fmt(d), f)
            continue
        if body is None or not body.has_cfg:
            ctx.broken("R19.2", f, "deleter-body:" + tag, "deleter body not found", f)
            continue
        deleters.add(body.id)
        if body.kind not in ("lambda",) and body.op != "()":
            # a named deleter closes the library whenever it is CALLED: nobody but the owning handle may do that
            direct = sorted(c for c in callgraph(ctx).callers(body.id) if (prog.fn(c) is not None and prog.fn(c).file.startswith("/repo/")))
            ctx.check(not direct, "R19.3", body, "named-deleter-only-runs-as-deleter:" + short(body.qual), "%s, the handle's deleter, is also called directly by %s: the library can be closed while symbols or copies are alive"
                      % (short(body.qual), [short(c.split("(")[0]) for c in direct]), body)
        pn = body.params[0]["name"] if body.params else "?"
        closes = [(b, i, e, n) for b, i, e in body.roots() for n in dl_calls(e) if n.get("name") == "dlclose"]
        ctx.check(len(closes) == 1 and fmt(closes[0][3]["args"][0]) == pn, "R19.2", f, "deleter-closes-its-argument:" + tag, "the deleter calls dlclose %d time(s) / not on its own argument" % len(closes), body)
        for (b, i, e, n) in closes:
            okg = bool(cfg.dominated_by_edge(body, b, lambda c, pn=pn: fmt(c) in ("(%s != nullptr)" % pn, pn, "(nullptr != %s)" % pn)))
            ctx.check(okg, "R19.2", f, "deleter-null-safe:" + tag, "dlclose is called without the non-null test", (body, n.get("ln")))
        # failure path
        fe2 = facts.FactsEngine(prog, cg)
        IN, before = fe2.analyse(f)
        rb = [b for b in IN if f.is_noreturn(b)]
        ctx.check(len(rb) == 1, "R19.2", f, "failure-raises:" + tag, "expected one raise in the constructor, found %d" % len(rb), f)
        for b in rb:
            for n, exc, e in C04.raise_nodes(f, b):
                ctx.check(exc == DL_EXC, "R19.2", f, "raises-dl-exception:" + tag, "a failed open raises %s" % exc, (f, e.get("ln")))
                a = n.get("args", [])
                ctx.check(bool(a) and fmt(ir.unwrap(a[0])) == "dlerror()", "R19.2", f, "diagnostic-is-fresh-dlerror:" + tag, "the exception's diagnostic is %s, not a fresh dlerror()" % (fmt(a[0]) if a else "missing"), (f, e.get("ln")))
            rr, _ = logic.entails(IN[b], Not(("a", "nonnull(this.handle)")), fe2.lg.axioms)
            ctx.check(rr is True, "R19.2", f, "raise-iff-null-handle:" + tag, "the raise is not tied to `handle == nullptr` (facts: %s)" % [logic.show(g) for g in IN[b]], f)
    # R19.3
    others = []
    for f in prog.fns.values():
        if not f.has_cfg or not f.file.startswith("/repo/"):
            continue
        for bid, i, e in f.roots():
            for n in dl_calls(e):
                if n.get("name") == "dlclose" and f.id not in deleters:
                    others.append((f, n))
    for f, n in others:
        ctx.bad("R19.3", f, "dlclose-outside-deleter", "%s calls dlclose directly: the library can be unmapped while symbols or copies are alive" % short(f.qual), (f, n.get("ln")))
    # ... and dlopen only as the initialiser of an owning handle: any other successful dlopen (RTLD_NOLOAD "is it loaded?" probes
    # included) returns a counted handle that nothing closes, so the one dlclose of the last owner no longer unmaps the library
    owned = set()
    for f in ctors:
        for _, _, e in f.all_elems():
            if e["kind"] == "init" and short(e.get("field") or "") == "handle" and e.get("expr") is not None:
                owned |= {id(y) for y in walk(e["expr"]) if isinstance(y, dict) and y.get("k") == "call" and (y.get("name") or "") == "dlopen"}
    stray = []
    for f in prog.fns.values():
        if not f.has_cfg or not f.file.startswith("/repo/"):
            continue
        for bid, i, e in f.all_elems():
            if e.get("expr") is None:
                continue
            for y in walk(e["expr"]):
                if isinstance(y, dict) and y.get("k") == "call" and (y.get("name") or "") == "dlopen" and id(y) not in owned:
                    stray.append((f, y))
    for f, y in stray:
        ctx.bad("R19.3", f, "dlopen-outside-owning-handle:%s" % short(f.qual), "%s calls %s and does not hand the result to an owning handle: each successful call adds a reference to the library that is never "
                "released, so the library stays mapped after the last dl / symbol object has gone" % (short(f.qual), fmt(y)[:70]), (f, y.get("ln")))
    if not stray:
        ctx.ok("R19.3", "nitro::dl", "dlopen-only-into-owning-handle", "%d owned dlopen call(s)" % len(owned), "-")
    from .common import fx
    g = fx(ctx, "close_directly")
    ctx.fixture("R19.3", "close_directly", g is not None and any(n.get("name") == "dlclose" for _, _, e in g.roots() for n in dl_calls(e)), True, "dlclose outside a deleter recognised")
    if not others:
        ctx.ok("R19.3", "nitro::dl", "dlclose-only-in-deleters", "%d deleter bodies" % len(deleters), "-")

    # ---- R19.4
    sym = [c for c in prog.class_family("nitro::dl::symbol")] or [c for n, c in prog.classes.items() if n.startswith("nitro::dl::symbol<")]
    ctx.need("R19.4", "symbol class (pattern / instantiation)", len(sym), 1)
    for c in sym:
        lib = [fl for fl in c["fields"] if fl["name"] == "library"]
        ok = bool(lib) and lib[0]["type"].replace(" ", "") == "std::shared_ptr<void>" and not lib[0].get("ref") and not lib[0].get("ptr")
        ctx.check(ok, "R19.4", c["name"], "library-held-by-value", "symbol::library has type %s: a symbol no longer keeps its library mapped" % (lib[0]["type"] if lib else "missing"), "%s:%d" % (c["file"], c["line"]))
    sctors = [f for f in prog.fns.values() if f.has_cfg and f.kind == "ctor" and (f.cls or "").startswith("nitro::dl::symbol") and len(f.params) == 2]
    ctx.need("R19.5", "symbol constructors", len(sctors), 1)
    for f in sctors:
        tag = "pattern" if f.is_pattern else "inst"
        pn = f.params[0]["name"]
        init = None
        for _, _, e in f.all_elems():
            if e["kind"] == "init" and short(e.get("field") or "") == "library":
                init = fmt(ir.unwrap(e["expr"]))
        ctx.check(init in ("shared_ptr{%s}" % pn, pn, "(%s)" % pn, "move(%s)" % pn, "shared_ptr{move(%s)}" % pn), "R19.4", f, "library-from-parameter:" + tag, "symbol::library is initialised with %s" % init, f)
        # ---- R19.5 ordering
        seq = []
        for bid in sorted(f.reachable_blocks(), reverse=True):
            pass
        # linear prefix: the entry block chain until the first branch
        b = f.entry
        order = []
        seen = set()
        while b is not None and b not in seen:
            seen.add(b)
            for e in f.elems(b):
                for n in dl_calls(e):
                    order.append((n.get("name"), e, n, b))
            ss = f.succs(b)
            if len(ss) != 1:
                break
            b = ss[0][0]
        names = [o[0] for o in order]
        ctx.check(names == ["dlerror", "dlsym", "dlerror"], "R19.5", f, "clear-lookup-check:" + tag,
                  "the symbol lookup performs %s: stale loader errors are not cleared before dlsym, or the error is not read right after it" % names, f)
        if names == ["dlerror", "dlsym", "dlerror"]:
            # the second dlerror's result decides; the raise passes it on
            e2 = order[2][1]
            x = e2["expr"]
            errv = x["vars"][0]["name"] if x.get("k") == "decl" and x.get("vars") else None
            last = order[2][3]
            t = f.term(last)
            okc = False
            if errv is not None and t.get("cond") is not None:
                ct = fmt(ir.unwrap(t["cond"]))
                # which edge means "the loader reported an error": true of `err != nullptr` / `err`, false of `err == nullptr` / `!err`
                err_label = {"(%s != nullptr)" % errv: "true", errv: "true", "(nullptr != %s)" % errv: "true", "(%s == nullptr)" % errv: "false", "(nullptr == %s)" % errv: "false",
                             "!%s" % errv: "false", "(!%s)" % errv: "false"}.get(ct)
                if err_label is not None:
                    tgt = {lab: to for to, lab in f.succs(last)}
                    def _reach(src):
                        seen, st = set(), [src]
                        while st:
                            b0 = st.pop()
                            if b0 in seen:
                                continue
                            seen.add(b0)
                            if not f.is_noreturn(b0):
                                st.extend(to for to, _ in f.succs(b0))
                        return seen
                    on_err = _reach(tgt.get(err_label))
                    on_ok = _reach(tgt.get("false" if err_label == "true" else "true"))
                    # with an error every way out raises; without one none does
                    okc = f.exit not in on_err and not any(f.is_noreturn(b0) for b0 in on_ok)
            ctx.check(okc, "R19.5", f, "error-decides:" + tag, "the outcome is decided by %s instead of the dlerror() result (a null symbol address is legal)" % (fmt(t.get("cond")) if t.get("cond") is not None else "nothing"), f)
            for bb in f.reachable_blocks():
                if f.is_noreturn(bb):
                    for n, exc, e in C04.raise_nodes(f, bb):
                        a = n.get("args", [])
                        ctx.check(exc == DL_EXC and bool(a) and fmt(ir.unwrap(a[0])) == errv, "R19.5", f, "raises-with-that-error:" + tag, "the failure raises %s(%s)" % (exc, fmt(a[0]) if a else ""), (f, e.get("ln")))
            # dlsym on the library handle and the requested name
            ds = order[1][2]
            a = [fmt(ir.unwrap(z)) for z in ds.get("args", [])]
            # an explaining variable for the raw handle: its single initialiser stands for it
            if a and re.fullmatch(r"\w+", a[0]):
                inits = [v.get("init") for _, _, e3 in f.roots() if e3["expr"].get("k") == "decl" for v in e3["expr"]["vars"] if v["name"] == a[0] and v.get("init") is not None]
                if len(inits) == 1:
                    a[0] = fmt(ir.unwrap(ir.strip_deep(inits[0])))
            ctx.check(a == ["%s.get()" % pn, "%s.c_str()" % f.params[1]["name"]] or a == ["this->library.get()", "%s.c_str()" % f.params[1]["name"]] or a == ["library.get()", "%s.c_str()" % f.params[1]["name"]],
                      "R19.5", f, "looks-up-name-in-library:" + tag, "dlsym is called with %s" % a, f)
    ctx.rule("R19.7", "nothing in the dl / env wrappers reads a local or parameter after handing it to std::move (a moved-from shared_ptr is null: dlsym(nullptr, name) searches the global scope)")
    from .common import rule_no_use_after_move
    rule_no_use_after_move(ctx, "R19.7", lambda g: "/nitro/dl/" in g.file or "/env/" in g.file, "a moved-from handle is null", minimum=5)
    ctx.rule("R19.9", "hand-written copy / move operations of dl and symbol take over every member - the function pointer together with the library handle that keeps it valid")
    from .common import rule_special_members_complete
    rule_special_members_complete(ctx, "R19.9", lambda cn: cn.startswith("nitro::dl::"), "a symbol that points into one library while holding another one's handle dangles once that library's last owner is gone", minimum=0)
    ctx.rule("R19.8", "no catch handler in the dl / env wrappers lets a failure vanish or turns the documented error into another class: a library or symbol that cannot be loaded, a variable that is not set, is reported to the caller")
    from .common import rule_handlers
    rule_handlers(ctx, "R19.8", lambda g: "/nitro/dl/" in g.file or "/env/" in g.file, ("nitro::dl::exception", "nitro::except::exception"), "the failure has to reach the caller as the documented exception", minimum=5)
    loads = [f for f in prog.fns.values() if f.has_cfg and f.name == "load" and f.cls == "nitro::dl::dl"]
    ctx.need("R19.4", "dl::load bodies", len(loads), 1)
    for f in loads:
        r = [fmt(ir.unwrap(e["expr"].get("e"))) for _, _, e in f.roots() if e["expr"].get("k") == "return"]
        ok = len(r) == 1 and re.fullmatch(r"symbol(<T>)?\{(shared_ptr\{)?handle\}?, %s\}" % f.params[0]["name"], r[0]) is not None
        ctx.check(ok, "R19.4", f, "load-passes-own-handle:" + ("pattern" if f.is_pattern else "inst"), "dl::load returns %s" % r, f)

    # ---- R19.6
    ex = [f for f in prog.methods_of(DL_EXC) if f.kind == "ctor" and f.has_cfg and len(f.params) == 2]
    ctx.need("R19.6", "dl::exception constructor", len(ex), 1)
    good_ctors = set()
    for f in ex:
        pn = f.params[0]["name"]
        stores = []
        for bid, i, e in f.roots():
            for n in walk(e["expr"], into_sc=False):
                if (n.get("k") == "bin" and n["op"] == "=" and fmt(n["l"]) == "dlerror_") or (n.get("k") == "call" and n.get("op") == "=" and fmt(n.get("this")) == "dlerror_"):
                    rhs = n["r"] if n.get("k") == "bin" else n["args"][0]
                    stores.append((bid, fmt(ir.unwrap(rhs))))
        for _, _, e in f.all_elems():
            if e["kind"] == "init" and short(e.get("field") or "") == "dlerror_":
                s0 = fmt(ir.unwrap(e["expr"]))
                if pn in s0:
                    stores.append((None, s0))
        # a delegating constructor: the copy of the diagnostic is made in the argument list and the target constructor moves it into dlerror_
        if not stores:
            for _, _, e in f.all_elems():
                x0 = ir.unwrap(e.get("expr")) if e.get("expr") is not None else None
                if isinstance(x0, dict) and x0.get("k") == "construct" and x0.get("ctor") and x0["ctor"] != f.id:
                    g = prog.fn(x0["ctor"])
                    if g is None or g.cls != f.cls or not g.has_cfg:
                        continue
                    for _, _, e2 in g.all_elems():
                        if e2["kind"] == "init" and short(e2.get("field") or "") == "dlerror_" and e2.get("expr") is not None:
                            src2 = [y["decl"][6:] for y in walk(e2["expr"]) if isinstance(y, dict) and y.get("k") == "ref" and str(y.get("decl", "")).startswith("param:")]
                            names2 = [p0["name"] for p0 in g.params]
                            for s2 in src2:
                                if s2 in names2 and names2.index(s2) < len(x0.get("args", [])):
                                    stores.append((None, fmt(ir.unwrap(x0["args"][names2.index(s2)]))))
        ok = bool(pn) and any(re.search(r"basic_string\{%s(, allocator\{\})?\}" % re.escape(pn), s0) for _, s0 in stores)
        if ok:
            good_ctors.add(f.id)
        ctx.check(ok, "R19.6", f, "stores-diagnostic", "dl::exception does not store the loader's diagnostic (stores: %s)" % stores, f)
        rets = [g for g in prog.methods_of(DL_EXC) if g.name == "dlerror" and g.has_cfg]
        for g in rets:
            r = [fmt(ir.unwrap(e["expr"].get("e"))) for _, _, e in g.roots() if e["expr"].get("k") == "return"]
            ctx.check(r == ["dlerror_"], "R19.6", g, "returns-diagnostic", "dl::exception::dlerror() returns %s" % r, g)
    # ---- R19.10: every dl::exception that is raised is built by a constructor that stores the diagnostic (overload selection: an
    # inherited / added constructor that matches the raise's arguments better takes the loader's text as part of the message and
    # leaves dlerror() empty)
    ctx.rule("R19.10", "raises-through-the-storing-constructor: every construction of nitro::dl::exception in /repo (the raise<dl::exception> instantiations included) selects a constructor that stores its first argument as the diagnostic")
    storing = good_ctors
    ncons = 0
    for g in sorted(prog.fns.values(), key=lambda h: h.id):
        if not g.has_cfg or not g.file.startswith("/repo/") or g.is_pattern:
            continue
        if not ("/nitro/dl/" in g.file or (g.qual == "nitro::except::raise" and ("#<" + DL_EXC) in g.id)):
            continue
        for bid, i, e in g.all_elems():
            x = e.get("expr")
            if not isinstance(x, dict):
                continue
            for n in walk(x):
                if isinstance(n, dict) and n.get("k") == "construct" and (n.get("type") or "").replace("class ", "") in (DL_EXC, "exception") and (n.get("ctor") or "").startswith(("nitro::dl::exception::", "nitro::except::exception::")):
                    c = prog.fn(n.get("ctor")) if n.get("ctor") else None
                    if c is not None and (c.flags.get("copy_ctor") or c.flags.get("move_ctor")) and c.cls == DL_EXC:
                        continue
                    if g.cls == DL_EXC or (c is not None and c.cls != DL_EXC and g.cls is not None):
                        continue  # the base-class initialiser inside dl::exception's own constructors
                    ncons += 1
                    ctx.check(n.get("ctor") in storing, "R19.10", g, "raises-through-the-storing-constructor:%s" % fmt(n)[:60],
                              "%s builds the dl::exception through %s, which does not store the loader's diagnostic: dlerror() of the caught exception is empty and what() "
                              "is another text" % (short(g.qual), (n.get("ctor") or "?")[:120]), (g, e.get("ln")), why_ok=(n.get("ctor") or "")[:80])
    ctx.need("R19.10", "constructions of dl::exception", ncons, 2)
    ctx.assume("the loader's own reference counting (dlopen/dlclose pairing inside libc) is outside the source")
    ctx.trust("std::shared_ptr: the deleter runs exactly once when the last owner goes away - also for a null stored pointer when a deleter was supplied (Appendix D.3)")
