"""C05 - a log statement reaches the sink exactly once iff it is enabled, unaltered.

R05.1 (A7+A1) exactly-once ownership: smart_stream is move-only (not move-assignable); its members r, s are
      std::unique_ptr; the move constructor initialises BOTH from std::move of the source's members; the destructor emits
      once under `if (r)` (R10.4); the rvalue operator<< overloads return std::move(s) by value, the lvalue ones return
      the same reference.
R05.2/R05.3 = R10.4 (who may call sink/formatter/log/will_log; runtime gate) - re-evaluated here.
R05.4 (A3) combinators: and_filter == F1 && F2, or_filter == F1 || F2, not_filter == !F1 over the atoms F1::filter(r),
      F2::filter(r); severity_filter == severity(r) >= threshold; null_filter == true; not_filter<not_filter<F>> is F.
R05.5 = R10.1 (compile-time gate matrix) - re-evaluated here.
R05.6 (A7+AST) fan-out: gen_seq<N> is seq<0..N-1>; in helper::for_each the pack expansion sits inside a braced init-list
      (left-to-right evaluation is guaranteed there and nowhere else); sequence::sink hands both parameters unchanged to
      every member.
R05.7 (A6/A9) content: the record's message is the buffer's str() unmodified; severity and tag are set from the template
      parameter / constructor argument; the operator<< overloads insert exactly `t` resp. `t()` into sstr().
R05.8 (A5) no thread / async / queue / shared-buffer construct on the path from statement to sink.
"""
import os
import re

from sa import ir, cfg, witness, logic
from sa.ir import fmt, walk, short
from sa.callgraph import tree_effects
from sa.extract import VERIF
from .common import callgraph, elem_calls
from . import C10

SS = C10.SS


def _member_sinks(f, v):
    """the holder of sink::sequence's member sinks - `static std::tuple<Sinks...>` inside sequence.hpp: program-wide by design like the
    logger singleton (constructed on first use; before fix b1e0e8c it was a static data member), and no text of any statement lives in it"""
    t = (v.get("type") or "").replace("class ", "")
    return f.file.endswith("/sink/sequence.hpp") and not v.get("thread_local") and re.match(r"^std::tuple<\s*(Sinks\.\.\.|[\w:<>, ]+)\s*>$", t) is not None \
        and not re.search(r"string|stream|char|vector|record", t, re.I)


def run(ctx):
    prog = ctx.prog
    cg = callgraph(ctx)
    for r, d in (("R05.1", "ownership of record and buffer: move-only, unique_ptr members, complete move constructor, operator<< return discipline"),
                 ("R05.2", "gates and who-may-call (shared with C10 R10.4)"), ("R05.4", "filter combinator truth tables"),
                 ("R05.5", "compile-time gate matrix (shared with C10 R10.1)"), ("R05.6", "sequence sink fan-out order"),
                 ("R05.7", "record content"), ("R05.8", "synchronous delivery")):
        ctx.rule(r, d)
    wp = os.path.join(VERIF, "witness", "tl_C05.cpp")
    # the library's own index-sequence generator is witnessed when there is one (std::index_sequence is trusted)
    own_seq = any(k.startswith("nitro::lang::helper::gen_seq") for k in prog.classes)
    wdef = ("VERIF_HAS_GEN_SEQ",) if own_seq else ()
    witness.apply(ctx, lambda t: "R05.6" if t and t[0] == "w" and 6 <= int(re.sub(r"\D", "", t)) <= 14 else ("R05.4" if t in ("w15", "w16") else "R05.1"), wp, defines=wdef)
    if not own_seq:
        for o in ctx.obs:
            if o.rule == "R05.6" and re.fullmatch(r"w(6|7|8|9|1[0-4])", o.construct or ""):
                o.why = "not applicable: no nitro::lang::helper::gen_seq in this tree (index sequence from the standard library)"
    if ctx.tier == "thorough":
        witness.apply(ctx, lambda t: "R05.1", wp, compiler="g++", label="g++", defines=wdef)

    fns = [f for f in prog.fns.values() if f.has_cfg and f.file.endswith(C10.STREAM_HPP) and f.is_pattern]
    cls = prog.cls(SS)
    if not ctx.anchor("R05.1", SS, cls is not None):
        return
    # ---- R05.1 members
    members = {fl["name"]: fl for fl in cls["fields"] if not fl.get("static")}
    ctx.need("R05.1", "smart_stream data members", len(members), 2)
    for nm, fl in sorted(members.items()):
        t = fl["type"].replace(" ", "")
        ctx.check(t.startswith("std::unique_ptr<"), "R05.1", SS, "member-is-unique_ptr:" + nm,
                  "smart_stream::%s has type %s: the record/buffer of a statement is no longer exclusively owned by one stream object" % (nm, fl["type"]),
                  "%s:%d" % (cls["file"], cls["line"]))
    statics = [fl["name"] for fl in cls["fields"] if fl.get("static")]
    ctx.check(not statics, "R05.1", SS, "no-static-members", "smart_stream has static members %s" % statics, "%s:%d" % (cls["file"], cls["line"]))
    # move constructor completeness
    mc = [f for f in fns if f.cls == SS and f.flags.get("move_ctor")]
    dmc = (cls.get("special") or {}).get("move_ctor") or {}
    if not mc and dmc.get("defaulted") and not dmc.get("deleted"):
        # `= default`: member-wise move; for unique_ptr members (checked above) that is exactly move(src.member) for every member, the source is left null
        allp = all(fl["type"].replace(" ", "").startswith("std::unique_ptr<") for fl in members.values())
        ctx.check(allp, "R05.1", SS, "move-transfers:defaulted", "the defaulted move constructor copies a member that is not a unique_ptr: source and target both hold it", "%s:%d" % (cls["file"], cls["line"]),
                  why_ok="defaulted move constructor over unique_ptr members %s" % sorted(members))
        mc = []
        ctx.need("R05.1", "smart_stream move constructor", 1, 1)
    else:
        ctx.need("R05.1", "smart_stream move constructor", len(mc), 1)
    for f in mc:
        src = f.params[0]["name"]
        inits = {short(e["field"]): e["expr"] for _, _, e in f.all_elems() if e["kind"] == "init" and e.get("field")}
        for nm in sorted(members):
            ex = inits.get(nm)
            ok = ex is not None and fmt(ir.unwrap(ex)) in ("move(%s.%s)" % (src, nm),)
            ctx.check(ok, "R05.1", f, "move-transfers:" + nm, "the move constructor does not take `%s` from the source with std::move (found %s): %s" % (
                nm, fmt(ex) if ex is not None else "nothing", "both objects would emit / the record is lost" if nm == "r" else "the message text is lost"), f)
    # operator<< return discipline
    ops = [f for f in fns if f.op == "<<" and f.params and "smart_stream" in (f.params[0].get("type") or "")]
    ctx.need("R05.1", "smart_stream operator<< overloads", len(ops), 4)
    for f in ops:
        sname = f.params[0]["name"]
        rv = "&&" in (f.params[0].get("type") or "")
        # callable or value overload: told apart by what reaches the buffer (`t()` or `t`), not by the parameter's spelling
        tname = f.params[1]["name"]
        calls_it = any(n.get("k") in ("call", "ucall") and fmt(ir.unwrap(n.get("callee") or n.get("this") or {})) == tname or fmt(n) in ("%s()" % tname, "?()")
                       for _, _, e in f.roots() for n in walk(e["expr"], into_sc=False) if isinstance(n, dict))
        tag = ("rvalue" if rv else "lvalue") + (":callable" if calls_it else ":value")
        if not calls_it:
            pt = (f.params[1].get("type") or "").strip()
            # (a pointer, a pointer to function - a stream manipulator - or an arithmetic value has no derived part to lose)
            unsliceable = bool(f.params[1].get("bits")) or pt.endswith("*") or "(*)" in pt or pt in ("bool", "double", "float", "long double", "char")
            ctx.check(pt.endswith("&") or unsliceable, "R05.7", f, "operand-by-reference:" + tag + "@%s" % f.line,
                      "the overload takes the streamed item as `%s %s`, a copy of its static type: an object streamed through a base-class reference is sliced before it is inserted, "
                      "so the message differs from inserting the item itself (and from the other syntactic form)" % (pt, tname), f, why_ok=pt)
        rets = [fmt(ir.unwrap(e["expr"].get("e"))) for _, _, e in f.roots() if e["expr"].get("k") == "return"]
        if rv:
            ok = bool(rets) and all(r in ("move(%s)" % sname,) for r in rets) and not f.ret.rstrip().endswith("&")
            ctx.check(ok, "R05.1", f, "returns-ownership:" + tag, "the rvalue operator<< returns %s as %s: ownership of the record does not move on to the next << (emitted early or twice)" % (rets, f.ret), f)
        else:
            ok = bool(rets) and all(r == sname for r in rets) and f.ret.rstrip().endswith("&")
            ctx.check(ok, "R05.1", f, "returns-same-stream:" + tag, "the lvalue operator<< returns %s as %s instead of the same stream object" % (rets, f.ret), f)
        # ---- R05.7: what is inserted
        ins = []
        # (the buffer may be named first: `std::stringstream& buffer = s.sstr();`)
        bufnames = {"%s.sstr()" % sname}
        for _, _, e0 in f.roots():
            x0 = e0["expr"]
            if x0.get("k") == "decl":
                for v0 in x0.get("vars", []):
                    if v0.get("init") is not None and fmt(ir.unwrap(v0["init"])) == "%s.sstr()" % sname and ((v0.get("type") or "").rstrip().endswith("&") or v0.get("ref")):
                        bufnames.add(v0["name"])
        for bid, i, e in f.roots():
            for n in walk(e["expr"], into_sc=False):
                bo = ir.as_binop(n)
                if bo and bo[0] == "<<" and fmt(ir.unwrap(bo[1])) in bufnames:
                    ins.append(fmt(ir.unwrap(bo[2])))
        # the callable's result may be taken first and inserted afterwards (`auto&& v = t(); s.sstr() << std::forward<decltype(v)>(v);`): what is
        # inserted is then a local whose only definition is the one call of the callable
        if tag.endswith("callable"):
            ldefs = {}
            for _, _, e0 in f.roots():
                x0 = e0["expr"]
                if x0.get("k") == "decl":
                    for v0 in x0.get("vars", []):
                        if v0.get("init") is not None and re.fullmatch(r"(const )?(auto|decltype\(auto\))( ?&&?)?", (v0.get("type") or "").strip()):
                            # (only a declaration that keeps the result's own type: `lang::string_ref text = t()` converts it)
                            ldefs.setdefault(v0["name"], []).append(fmt(ir.unwrap(v0["init"])))
            ncalls_t = sum(1 for _, _, e0 in f.roots() for n0 in walk(e0["expr"], into_sc=False) if isinstance(n0, dict) and n0.get("k") in ("call", "ucall") and fmt(n0) in ("%s()" % tname, "?()"))
            resolved = []
            for x1 in ins:
                m1 = re.fullmatch(r"(?:forward|move)\(([A-Za-z_]\w*)\)|([A-Za-z_]\w*)", x1)
                nm1 = (m1.group(1) or m1.group(2)) if m1 else None
                if nm1 and ldefs.get(nm1) in (["%s()" % tname], ["?()"]) and ncalls_t == 1:
                    resolved.append("%s()" % tname)
                else:
                    resolved.append(x1)
            ins = resolved
        # the buffer only ever grows while a statement is composed: repositioning or replacing its content (seekp, str(x), swap, a changed
        # state or format) - also inside a catch handler - makes the record differ from the concatenation of what was streamed
        for _, _, e0 in f.all_elems():
            x0 = e0.get("expr")
            for n0 in (walk(x0) if isinstance(x0, dict) else []):
                if isinstance(n0, dict) and n0.get("k") == "call" and n0.get("this") is not None and fmt(ir.unwrap(n0["this"])) in bufnames:
                    m0 = short(n0.get("name") or "")
                    has_args = bool([a0 for a0 in n0.get("args", []) if not (isinstance(a0, dict) and a0.get("k") == "defarg")])
                    if m0 in ("seekp", "swap", "setstate", "copyfmt", "imbue", "unsetf", "setf", "width", "precision", "fill") or (m0 in ("str", "rdbuf", "exceptions", "clear", "flags") and has_args):
                        if m0 in ("width", "precision", "fill", "flags") and not has_args:
                            continue
                        ctx.bad("R05.7", f, "buffer-only-appended:%s:%s" % (tag, m0), "the overload calls %s on the statement's buffer (line %s): the put position / content / formatting state of what was streamed so far is changed - "
                                "`seekp` does not shorten the text, later items overwrite it from there and str() still returns everything up to the old end" % (fmt(n0)[:60], n0.get("ln")), (f, n0.get("ln")))
        want = "?()" if tag.endswith("callable") else tname
        okins = len(ins) == 1 and (ins[0] == want or (tag.endswith("callable") and ins[0] in ("%s()" % tname, "?()")))
        ctx.check(okins, "R05.7", f, "inserts-operand-once:" + tag, "the overload inserts %s into the buffer instead of exactly one `%s`" % (ins, tname + ("()" if tag.endswith("callable") else "")), f)
    # ---- R05.7: destructor content
    for f in [f for f in fns if f.cls == SS and f.kind == "dtor"]:
        msg = None
        for bid, i, e in f.roots():
            for n in walk(e["expr"], into_sc=False):
                if n.get("k") == "bin" and n["op"] == "=" and "message()" in fmt(n["l"]):
                    msg = fmt(ir.unwrap(n["r"]))
                if n.get("k") == "call" and n.get("op") == "=" and n.get("this") is not None and "message()" in fmt(n["this"]):
                    msg = fmt(ir.unwrap(n["args"][0])) if n.get("args") else None
        ctx.check(msg in ("s.operator->()->str()", "(*s).str()", "s->str()", "sstr().str()"), "R05.7", f, "message-is-buffer-text",
                  "the record's message is assigned %s instead of the buffer's str() unmodified" % msg, f)
        logs = [n for _, _, e in f.roots() for n in elem_calls(e) if short(n.get("name") or "") == "log"]
        for n in logs:
            a = [fmt(ir.unwrap(x)) for x in n.get("args", [])]
            ctx.check(a == ["Severity", "(*r)"], "R05.7", f, "emits-own-severity-and-record", "logger::log is called with %s instead of (Severity, *r)" % a, f)
    for f in [f for f in fns if f.cls == SS and f.kind == "ctor" and not f.flags.get("move_ctor")]:
        txt = " ".join(fmt(e["expr"]) for _, _, e in f.roots())
        # ... or a member helper of smart_stream that builds the record for it (`r(make_record(tag))`): the helper is handed the tag and sets both
        # attributes on the record it returns
        for _, _, e in f.all_elems():
            x0 = e.get("expr")
            for n0 in (walk(x0) if isinstance(x0, dict) else []):
                if n0.get("k") == "call" and any(fmt(ir.unwrap(a0)) == "tag" for a0 in n0.get("args", [])):
                    for h in [g for g in fns if g.cls == SS and g.has_cfg and g.name == short(n0.get("name") or "") and g.kind not in ("ctor", "dtor")]:
                        pn0 = h.params[0]["name"] if h.params else "tag"
                        txt += " " + re.sub(r"\(\*\w+\)", "(*r)", " ".join(fmt(e2["expr"]) for _, _, e2 in h.roots())).replace(", %s)" % pn0, ", tag)")
        # (a helper spliced into the constructor prepares the record under a local name and initialises r with it)
        for _, _, e in f.all_elems():
            if e["kind"] == "init" and short(e.get("field") or "") == "r" and e.get("expr") is not None:
                m0 = re.fullmatch(r"\(?(?:move\()?([A-Za-z_][\w@]*)\)?\)?", fmt(e["expr"]))
                if m0:
                    txt = txt.replace("(*%s)" % m0.group(1), "(*r)")
        # (... or prepares it under a local owner and hands it to r afterwards: `r = std::move(rec)`)
        for m1 in re.finditer(r"\(r = (?:move\()?([A-Za-z_][\w@]*)\)?\)|r\.(?:operator=|swap|reset)\((?:move\()?([A-Za-z_][\w@]*?)(?:\.release\(\))?\)?\)", txt):
            nm1 = m1.group(1) or m1.group(2)
            if nm1 and nm1 not in ("r", "nullptr"):
                txt = txt.replace("(*%s)" % nm1, "(*r)")
        ctx.check("set_tag((*r), tag)" in txt, "R05.7", f, "tag-set-from-argument", "the constructor does not set the tag from its argument", f)
        ctx.check(re.search(r"\(\(\*r\), Severity\)", txt) is not None, "R05.7", f, "severity-set-from-template-parameter", "the constructor does not set the record's severity from the template parameter", f)

    # ---- R05.2/R05.3/R05.5 shared with C10
    sub = type(ctx)(ctx.prop, ctx.prog, ctx.tier)
    sub._sharing = True
    C10.run(sub)
    n2 = n5 = 0
    for o in sub.obs:
        if o.rule == "R10.4":
            o.rule = "R05.2"
            n2 += 1
            ctx.obs.append(o)
        elif o.rule in ("R10.1", "R10.6"):
            o.rule = "R05.5"
            n5 += 1
            ctx.obs.append(o)
    ctx.need("R05.2", "gate obligations", n2, 10)
    ctx.need("R05.5", "matrix cells", n5, 40)

    # ---- R05.11: a callable that is streamed is CALLED - also a function object whose call operator is not const and that is printable as well. Which of
    # the two operator<< families (lazy message / plain value) takes it is decided by a trait: a trait evaluated on `const T&` silently sends such objects
    # down the value path, their printed form lands in the message and they are never invoked
    ctx.rule("R05.11", "lazy-message probes (witness/facts_log.cpp, vwit::lazy_probes): for a printable function object with a non-const call operator, streamed as temporary or lvalue in both "
                       "statement forms, the selected operator<< invokes its operand")
    lp = [f for f in prog.find("vwit::lazy_probes") if f.has_cfg]
    if ctx.anchor("R05.11", "vwit::lazy_probes", bool(lp)):
        nprobe = 0
        for bid, i, e in lp[0].roots():
            x = ir.unwrap(e["expr"])
            if not (isinstance(x, dict) and x.get("k") == "call" and x.get("op") == "<<" and (x.get("name") or "").startswith("nitro::log")):
                continue
            nprobe += 1
            g = prog.fn(x.get("callee")) if x.get("callee") else None
            if g is None or not g.has_cfg:
                ctx.broken("R05.11", lp[0], "probe:%s" % fmt(x)[:50], "the selected operator<< is not in the facts", (lp[0], e.get("ln")))
                continue
            pn = g.params[-1]["name"] if g.params else "t"
            invoked = any(isinstance(n, dict) and n.get("k") == "call" and n.get("op") == "()" and n.get("this") is not None and re.search(r"\b%s\b" % re.escape(pn), fmt(n["this"]))
                          for _, _, e2 in g.all_elems() if isinstance(e2.get("expr"), dict) for n in walk(e2["expr"]))
            ctx.check(invoked, "R05.11", lp[0], "probe-invokes-callable:%s" % fmt(x)[:50],
                      "`%s` selects %s, which never calls its operand: the function object is printed through its own operator<< (or copied as a value) instead of being evaluated - "
                      "the delivered message is not what the callable returns" % (fmt(x)[:60], g.id[:150]), (lp[0], e.get("ln")), why_ok=g.id[:90])
        ctx.need("R05.11", "lazy-message probes", nprobe, 4)

    # ---- R05.4 combinators (patterns)
    lg = logic.Logic(prog, cg)
    def filt(name):
        fs = [f for f in prog.fns.values() if f.has_cfg and f.is_pattern and f.name == "filter" and (f.cls or "") == "nitro::log::filter::" + name]
        return fs[0] if len(fs) == 1 else None
    def ret_expr(f):
        rets = [ir.unwrap(e["expr"].get("e")) for _, _, e in f.roots() if e["expr"].get("k") == "return"]
        return rets[0] if len(rets) == 1 else None
    def dep_call(n, q):
        n = ir.unwrap(n)
        return isinstance(n, dict) and n.get("k") == "call" and (n.get("name") or "") == q and [fmt(a) for a in n.get("args", [])] == ["r"]
    for name, op in (("and_filter", "&&"), ("or_filter", "||")):
        f = filt(name)
        if not ctx.anchor("R05.4", "nitro::log::filter::%s::filter" % name, f is not None):
            continue
        r = ret_expr(f)
        ok = isinstance(r, dict) and r.get("k") == "bin" and r["op"] == op and dep_call(r["l"], "F1::filter") and dep_call(r["r"], "F2::filter")
        ctx.check(ok, "R05.4", f, "truth-table:" + name, "%s::filter returns %s instead of F1::filter(r) %s F2::filter(r)" % (name, fmt(r), op), f, why_ok=fmt(r))
    f = filt("not_filter")
    if ctx.anchor("R05.4", "nitro::log::filter::not_filter::filter", f is not None):
        r = ret_expr(f)
        ok = isinstance(r, dict) and r.get("k") == "un" and r["op"] == "!" and dep_call(r["e"], "F1::filter")
        ctx.check(ok, "R05.4", f, "truth-table:not_filter", "not_filter::filter returns %s instead of !F1::filter(r)" % fmt(r), f, why_ok=fmt(r))
    # partial specialisations of not_filter (the double negation): not(not(F)) decides like F - inherited from F1, or spelled out with
    # as many negations as the nesting leaves over (an even number of `not_filter<` around F1 means none)
    nspec = 0
    for cn in sorted(prog.classes):
        c0 = prog.classes[cn]
        if not (cn.startswith("nitro::log::filter::not_filter<") and c0.get("pattern")):
            continue
        nspec += 1
        depth = cn.count("not_filter<")
        own = [g for g in prog.fns.values() if g.has_cfg and g.is_pattern and g.name == "filter" and (g.cls or "") == cn]
        if not own:
            bases = [(b0.get("type") or b0.get("name"), b0.get("access")) for b0 in c0.get("bases", [])]
            ctx.check(depth % 2 == 0 and bases == [("F1", "public")], "R05.4", cn, "double-negation:" + short(cn), "the specialisation %s has bases %s: not(not(F)) has to decide like F" % (short(cn), bases),
                      "%s:%d" % (c0["file"], c0["line"]), why_ok="inherits filter() from F1")
            continue
        for g in own:
            r = ret_expr(g)
            neg = 0
            x = ir.unwrap(r) if r is not None else None
            while isinstance(x, dict) and x.get("k") == "un" and x.get("op") == "!":
                neg += 1
                x = ir.unwrap(x["e"])
            ok = x is not None and dep_call(x, "F1::filter") and (neg + depth) % 2 == 0
            ctx.check(ok, "R05.4", g, "double-negation:" + short(cn), "%s::filter returns %s: with %d negation(s) in the type and %d in the expression the result is the opposite of what not(not(F)) has to decide (F itself)"
                      % (short(cn), fmt(r) if r is not None else "?", depth, neg), g, why_ok=fmt(r) if r is not None else "")
    ctx.need("R05.4", "partial specialisations of not_filter", nspec, 1)
    f = filt("severity_filter")
    if ctx.anchor("R05.4", "nitro::log::filter::severity_filter::filter", f is not None):
        r = ret_expr(f)
        form = lg.formula(r) if r is not None else None
        ok = form == logic.Not(("a", "(r.severity() < min_severity())")) or form == logic.Not(("a", "(r.severity() < this.min_severity())"))
        ctx.check(bool(ok), "R05.4", f, "threshold:severity_filter", "severity_filter::filter is %s, not `severity >= threshold`" % (logic.show(form) if form else fmt(r)), f, why_ok=fmt(r))
        ms = [g for g in prog.fns.values() if g.has_cfg and g.is_pattern and g.name == "min_severity" and (g.cls or "") == "nitro::log::filter::severity_filter"]
        for g in ms:
            rr = ret_expr(g)
            # ... the very object set_severity() assigns (a static data member, or a function-local static behind an accessor)
            ss = [h for h in prog.fns.values() if h.has_cfg and h.is_pattern and h.name == "set_severity" and (h.cls or "") == "nitro::log::filter::severity_filter"]
            written = set()
            for h in ss:
                for _, _, e in h.roots():
                    for eff, lv, n0 in tree_effects(e["expr"]):
                        if eff in ("write", "maybe_write") and lv is not None:
                            written.add(fmt(ir.unwrap(lv)))
            ctx.check(bool(written) and fmt(ir.unwrap(rr)) in written, "R05.4", g, "threshold-is-configured-value",
                      "min_severity() returns %s, set_severity() writes %s: the threshold that is compared is not the one that is configured" % (fmt(rr), sorted(written)), g, why_ok=fmt(rr))
    # one threshold per (record type, index): the storage that set_severity() writes is a different object for filters that differ
    # in either template argument (checked on three instantiations of the witness unit)
    wf = [g for g in prog.find("vwit::thresholds_are_independent") if g.has_cfg]
    if ctx.anchor("R05.4", "vwit::thresholds_are_independent", bool(wf)):
        keys = []
        tls = set()
        for _, _, e in wf[0].roots():
            for n0 in elem_calls(e):
                if short(n0.get("name") or "") == "set_severity" and n0.get("callee"):
                    cal = prog.fn(n0["callee"])
                    keys.append((n0["callee"], frozenset(_storage_written(prog, cal, 0, tls)) if cal is not None else frozenset()))
        ctx.need("R05.4", "set_severity instantiations in the witness", len(keys), 3)
        # the threshold object is constant-initialised: a dynamic initialiser runs at an unspecified point of static initialisation and
        # overwrites a threshold that a global object's constructor has configured before
        dyn = []
        nst = 0
        for key in sorted({k0 for _, ks in keys for k0 in ks}):
            dk = key.split("|")[-1]
            qn = dk.split(":", 1)[1] if ":" in dk else dk
            init = None
            found = False
            for cname, c0 in prog.classes.items():
                for fl in c0.get("fields", []):
                    if fl.get("static") and fl.get("qual") == qn:
                        found = True
                        init = fl.get("init")
            if not found:
                for g in prog.fns.values():
                    if not g.has_cfg:
                        continue
                    for _, _, e0 in g.roots():
                        x0 = e0["expr"]
                        if x0.get("k") == "decl":
                            for v0 in x0.get("vars", []):
                                if v0.get("static") and v0.get("qual") == qn:
                                    found = True
                                    init = v0.get("init")
            if not found:
                continue
            nst += 1
            calls = [fmt(y)[:60] for y in walk(init) if isinstance(y, dict) and y.get("k") in ("call", "ucall", "lambda", "new")] if isinstance(init, dict) else []
            if calls:
                dyn.append((qn, calls[0]))
        if nst:
            ctx.check(not dyn, "R05.4", "nitro::log::filter::severity_filter", "threshold-is-constant-initialised",
                      "the threshold object %s is initialised by %s at run time: a threshold configured during static initialisation (a global object's constructor) is overwritten when that "
                      "initialiser runs, and statements below the configured threshold are evaluated, formatted and sunk" % (dyn[0] if dyn else "", dyn[0][1] if dyn else ""), "-", why_ok="constant initialiser")
        ctx.check(not tls, "R05.4", "nitro::log::filter::severity_filter", "threshold-is-process-wide",
                  "the threshold object %s is thread_local: a threshold configured on one thread is invisible to every other thread, whose statements are judged against the initial value "
                  "(records below the configured threshold are accepted, formatted and sunk there)" % sorted(tls), "-", why_ok="static storage, one object per process")
        ok_all = len(keys) == 3 and all(k[1] for k in keys)
        clash = []
        for i in range(len(keys)):
            for j in range(i + 1, len(keys)):
                if keys[i][1] & keys[j][1]:
                    clash.append((i, j, sorted(keys[i][1] & keys[j][1])))
        ctx.check(ok_all and not clash, "R05.4", "nitro::log::filter::severity_filter", "threshold-per-record-and-index",
                  "two severity_filter specialisations that differ in the record type or in the index write the same threshold object %s: configuring one filter silently re-configures the other "
                  "(band-pass expressions over two indices, two loggers with different records)" % ([c[2] for c in clash] or "(no static storage found)"), "-",
                  why_ok="three distinct objects")
    f = filt("null_filter")
    if ctx.anchor("R05.4", "nitro::log::filter::null_filter::filter", f is not None):
        r = ret_expr(f)
        ctx.check(fmt(r) == "true", "R05.4", f, "truth-table:null_filter", "null_filter::filter returns %s" % fmt(r), f)

    # ---- R05.6 fan-out
    fe = [f for f in prog.fns.values() if f.has_cfg and f.is_pattern and f.qual == "nitro::lang::helper::for_each"]
    ctx.need("R05.6", "helper::for_each pattern", len(fe), 1)
    for f in fe:
        packs_in_list, packs_elsewhere = 0, 0

        def scan(n, in_list):
            nonlocal packs_in_list, packs_elsewhere
            if not isinstance(n, dict):
                return
            if n.get("k") == "pack":
                if in_list:
                    packs_in_list += 1
                else:
                    packs_elsewhere += 1
            inl = in_list
            if n.get("k") == "init_list":
                inl = True
            elif n.get("k") in ("call", "construct", "paren_list"):
                inl = False
            for ch in ir.children(n):
                scan(ch, inl)

        for bid, i, e in f.roots():
            scan(e["expr"], False)
        ctx.check(packs_in_list >= 1 and packs_elsewhere == 0, "R05.6", f, "pack-expansion-in-braced-list",
                  "the calls f(get<Is>(t))... are expanded %s: only a braced init-list guarantees left-to-right evaluation, so member sinks may be called in a different order"
                  % ("as function arguments / outside a braced list" if packs_elsewhere else "nowhere"), f)
        txt = " ".join(fmt(e["expr"]) for _, _, e in f.roots())
        pt = f.params[0].get("name") if len(f.params) >= 2 else None
        pf = f.params[1].get("name") if len(f.params) >= 2 else None
        insts = [g for g in prog.fns.values() if g.has_cfg and g.flags.get("instantiation_of") == f.id]
        okv = bool(pt and pf) and "get(%s)" % pt in txt
        for g in insts:
            gt = " ".join(fmt(e["expr"]) for _, _, e in g.roots())
            okv = okv and "%s(get(%s))" % (pf, pt) in gt
        ctx.check(okv and len(insts) >= 1, "R05.6", f, "visits-get-Is",
                  "for_each does not apply its callable parameter to std::get<Is>(its tuple parameter) (pattern and %d instantiations)" % len(insts), f)
    tf = [f for f in prog.fns.values() if f.has_cfg and f.is_pattern and f.qual == "nitro::lang::tuple_foreach"]
    for f in tf:
        txt = " ".join(fmt(e["expr"]) for _, _, e in f.roots())
        ctx.check("gen_seq<sizeof...(Ts)>" in txt or "index_sequence_for" in txt or "make_index_sequence" in txt, "R05.6", f, "all-indices", "tuple_foreach does not iterate a full index sequence: %s" % txt[:80], f)
    sq = [f for f in prog.fns.values() if f.has_cfg and f.is_pattern and f.kind == "lambda" and f.id.startswith("nitro::log::sink::sequence::sink(")]
    # ... or a named function object of the class handed to tuple_foreach: its call operator forwards its two members,
    # which the construction binds to the two parameters of sink() in order
    functor_ok = None
    if not sq:
        sk = [g for g in prog.fns.values() if g.is_pattern and g.kind == "method" and g.qual == "nitro::log::sink::sequence::sink" and g.has_cfg]
        for g in sk:
            for _, _, e in g.roots():
                for n0 in walk(e["expr"]):
                    if n0.get("k") == "call" and short(n0.get("name") or "") == "tuple_foreach" and len(n0.get("args", [])) == 2:
                        fo = ir.unwrap(n0["args"][1])
                        if isinstance(fo, dict) and fo.get("k") in ("construct", "init_list", "paren_list", "cast"):
                            while isinstance(fo, dict) and fo.get("k") == "cast":
                                fo = ir.unwrap(fo["e"])
                            items = list(fo.get("args") or fo.get("elems") or [])
                            if len(items) == 1 and isinstance(ir.unwrap(items[0]), dict) and ir.unwrap(items[0]).get("k") == "init_list":
                                items = list(ir.unwrap(items[0]).get("elems", []))
                            parts = [fmt(ir.unwrap(a)) for a in items]
                            cname = fo.get("name") or fo.get("type") or ""
                            ops = [h for h in prog.fns.values() if h.has_cfg and h.op == "()" and (h.cls or "").endswith(short(cname)) and (h.cls or "").startswith("nitro::log::sink::sequence")]
                            cdict = prog.cls(ops[0].cls) if ops else None
                            flds = [fl["name"] for fl in (cdict or {}).get("fields", [])]
                            pn = [p0.get("name") for p0 in g.params]
                            good = bool(ops) and parts == pn and len(flds) == 2
                            for h in ops:
                                cs = [m for _, _, e2 in h.roots() for m in elem_calls(e2) if short(m.get("name") or "") == "sink"]
                                good = good and len(cs) == 1 and [fmt(ir.unwrap(a)) for a in cs[0].get("args", [])] == flds
                            functor_ok = (good, g, "function object %s{%s} forwarding %s" % (short(cname), ", ".join(parts), flds))
    if functor_ok is not None:
        ctx.check(functor_ok[0], "R05.6", functor_ok[1], "forwards-both-parameters-unchanged", "the fan-out %s does not hand (severity, record) unchanged to each member sink" % functor_ok[2], functor_ok[1], why_ok=functor_ok[2])
    ctx.need("R05.6", "sequence::sink fan-out lambda / function object", len(sq) + (1 if functor_ok is not None else 0), 1)
    # the fan-out reaches the sequence's OWN member sinks: the helper that walks the tuple binds it by reference, and so does the visitor its
    # element (a tuple taken by value is a copy of all member sinks per record - a member sink that keeps state never sees a record)
    tf = [h for h in prog.fns.values() if h.qual == "nitro::lang::tuple_foreach" and h.file.startswith("/repo/") and h.params]
    ctx.need("R05.6", "nitro::lang::tuple_foreach overloads", len(tf), 1)
    seen_tf = set()
    for h in sorted(tf, key=lambda x: x.id):
        if (h.file, h.line) in seen_tf:
            continue
        seen_tf.add((h.file, h.line))
        p0 = h.params[0]
        ctx.check(bool(p0.get("ref")), "R05.6", h, "visits-the-tuple-in-place", "tuple_foreach takes the tuple as `%s` - by value: sink::sequence hands it its member sinks, every record is delivered to "
                  "copies of them that die at once, the sequence's own sinks (and whatever they buffer or count) never see it" % (p0.get("type"),), h, why_ok=p0.get("type") or "")
    for g in sq:
        for pr in g.params[:0]:
            pass
    lam = [h for h in prog.fns.values() if h.kind == "lambda" and h.file.endswith("/sink/sequence.hpp") and h.params]
    for h in sorted(lam, key=lambda x: x.id):
        if h.is_pattern or len(h.params) != 1:
            continue
        p0 = h.params[0]
        ctx.check(bool(p0.get("ref")), "R05.6", h, "visitor-binds-member-sink-by-reference", "the fan-out visitor takes the member sink as `%s`: it works on a copy" % (p0.get("type"),), h, why_ok=p0.get("type") or "")
    for f in sq:
        calls = [n for _, _, e in f.roots() for n in elem_calls(e) if short(n.get("name") or "") == "sink"]
        parent = [g for g in prog.fns.values() if g.is_pattern and g.kind == "method" and g.qual == "nitro::log::sink::sequence::sink" and f.id.startswith(g.id)]
        pnames = [p.get("name") for p in parent[0].params] if parent else ["sev", "formatted_record"]
        ok = len(calls) == 1 and [fmt(ir.unwrap(a)) for a in calls[0].get("args", [])] == pnames
        ctx.check(ok, "R05.6", f, "forwards-both-parameters-unchanged", "a member sink receives %s" % [[fmt(a) for a in c.get("args", [])] for c in calls], f)

    # ---- R05.9: what a record carries from the statement to the sink is owned by the record (a named stream object is
    # formatted when it dies - views into the caller's temporaries are dead by then)
    ctx.rule("R05.9", "record attributes own their data: no pointer / reference / string view members in the attribute classes")
    nattr = 0
    for cname, c in sorted(prog.classes.items()):
        if "/nitro/log/attribute/" not in (c.get("file") or "") or c.get("template") and not c.get("pattern") and False:
            continue
        if c.get("template") and not c.get("pattern"):
            continue  # specialisations repeat their pattern
        for fl in c.get("fields", []):
            if fl.get("static"):
                continue
            nattr += 1
            t = fl.get("type") or ""
            view = fl.get("ptr") or fl.get("ref") or re.search(r"string_ref|string_view|reference_wrapper|\bspan<|const char \*", t) is not None
            ctx.check(not view, "R05.9", cname, "attribute-owns:" + fl["name"],
                      "%s::%s has the non-owning type `%s`: the record keeps a view of what the statement passed in; with a named stream object the referenced temporary is gone when the record is "
                      "formatted, so the delivered attribute is garbage" % (short(cname), fl["name"], t), "%s:%d" % (c["file"], c["line"]), why_ok=t)
    ctx.need("R05.9", "data members of attribute classes", nattr, 3)
    # ---- R05.8
    bad = 0
    scanned = 0
    for f in prog.fns.values():
        if not f.has_cfg or not (f.file.endswith(C10.STREAM_HPP) or f.file.endswith("/nitro/log/logger.hpp") or f.file.endswith("/sink/sequence.hpp")):
            continue
        scanned += 1
        for bid, i, e in f.all_elems():
            if e.get("expr") is None:
                continue
            for n in walk(e["expr"]):
                nm = (n.get("name") or n.get("type") or "")
                if n.get("k") in ("call", "construct") and re.search(r"std::(thread|async|future|promise|packaged_task|condition_variable|queue|deque)\b", nm):
                    bad += 1
                    ctx.bad("R05.8", f, "asynchronous:" + short(nm), "%s uses %s: delivery is no longer a synchronous call chain (per-thread program order not guaranteed)" % (short(f.qual), nm), (f, n.get("ln")))
                if n.get("k") == "decl":
                    for v in n.get("vars", []):
                        if v.get("static") and f.name != "instance" and not _member_sinks(f, v):
                            bad += 1
                            ctx.bad("R05.8", f, "shared-buffer:" + v["name"], "%s keeps a static/thread_local object `%s`: statements whose lifetimes overlap share it (one statement's text leaks into another)" % (short(f.qual), v["name"]), (f, e.get("ln")))
                if n.get("k") == "ref" and n.get("thread_local"):
                    bad += 1
                    ctx.bad("R05.8", f, "shared-buffer:" + n["decl"], "%s uses a thread_local object shared by all statements of the thread" % short(f.qual), (f, e.get("ln")))
    from .common import fx, static_locals
    g = fx(ctx, "asynchronous")
    fired = False
    if g is not None:
        for bid, i, e in g.all_elems():
            if e.get("expr") is not None:
                for n in walk(e["expr"]):
                    nm = (n.get("name") or n.get("type") or "")
                    if n.get("k") in ("call", "construct") and re.search(r"std::(thread|async|future|promise|packaged_task|condition_variable|queue|deque)\b", nm):
                        fired = True
    ctx.fixture("R05.8", "asynchronous", fired, True, "thread/async recognised")
    g = fx(ctx, "shared_buffer")
    ctx.fixture("R05.8", "shared_buffer", g is not None and bool(static_locals(g)), True, "static/thread_local buffer recognised")
    ctx.need("R05.8", "functions scanned", scanned, 15)
    if not bad:
        ctx.ok("R05.8", "nitro::log", "synchronous-private-state", "%d functions scanned" % scanned, "-")
    ctx.assume("equality of the delivered text with the concatenation for all streamed types relies on the library's operator<< (not decided)")
    ctx.assume("behaviour of user-supplied sinks / formatters / filters is outside the claim")
    ctx.trust("elements of a braced init-list are evaluated left to right (Appendix D.5)")


def _storage_written(prog, f, depth, tls=None):
    """keys of static-storage objects that f assigns: directly, through a reference returned by a callee (function-local
    static behind an accessor), or inside a callee"""
    from sa.callgraph import lvalue_root
    out = set()
    if f is None or not f.has_cfg or depth > 3:
        return out

    def returned_statics(g, d):
        r = set()
        if g is None or not g.has_cfg or d > 3:
            return r
        for _, _, e in g.roots():
            x = e["expr"]
            if x.get("k") == "return" and x.get("e") is not None:
                t = ir.unwrap(x["e"])
                if isinstance(t, dict) and t.get("k") == "ref" and (t.get("storage") in ("static_local", "static_member", "namespace") or t.get("decl", "").split(":")[0] in ("static", "global")):
                    r.add(g.id + "|" + t["decl"])
                    if tls is not None and t.get("thread_local"):
                        tls.add(g.id + "|" + t["decl"])
                elif isinstance(t, dict) and t.get("k") == "call" and t.get("callee"):
                    r |= returned_statics(prog.fn(t["callee"]), d + 1)
        return r

    for _, _, e in f.roots():
        for eff, lv, n in tree_effects(e["expr"]):
            if eff in ("write", "maybe_write") and lv is not None:
                t = ir.unwrap(lv)
                if isinstance(t, dict) and t.get("k") == "ref" and (t.get("storage") in ("static_local", "static_member", "namespace") or t.get("decl", "").split(":")[0] in ("static", "global")):
                    out.add((f.id + "|" if t.get("storage") == "static_local" else "") + t["decl"])
                    if tls is not None and t.get("thread_local"):
                        tls.add(t["decl"])
                elif isinstance(t, dict) and t.get("k") == "call" and t.get("callee"):
                    out |= returned_statics(prog.fn(t["callee"]), depth + 1)
        for n in elem_calls(e):
            if n.get("callee") and short(n.get("name") or "") not in ("operator=",):
                g = prog.fn(n["callee"])
                if g is not None and g.has_cfg and g.file.startswith("/repo/") and g.id != f.id:
                    out |= _storage_written(prog, g, depth + 1, tls)
    return out
