"""C02 - every spelling parses back to the assignment it spells (transport of values).

R02.1 (A6) the string stored by option/multi_option::update_value is a copy-only carrier of user_input::value();
      value() returns the whole argument for value tokens and *value_ otherwise; value_/name_ are only ever assigned
      arg_.substr(sep + 1) / arg_.substr(0, sep) (or arg_) with sep a FIRST-occurrence search for '=' on arg_.
R02.2 (A1/A9) multi-option storage and the positional list are extended only by append operations on the parse path.
R02.3 (A2) try_parse_as_option takes the value from the `=` part when has_value(), else from *(it+1) only under
      next != end && next->is_value(); the extra ++it happens on exactly that path.
R02.4 (A8) for the validation regex literal: L(-{1,2}[^-=]+[^=]*=) . Sigma* is included in L(regex): once a well-formed
      name and `=` are present the value may be any byte string.
"""
import re

from sa import ir, cfg, logic, facts, valueflow, regexlang
from sa.ir import fmt, walk, short
from sa.logic import Not, And, Or
from sa.callgraph import tree_effects, lvalue_root
from .common import NS, KINDS, PARSE_VEC, callgraph, one, elem_calls, literal_value, class_fields, bodies_of

UI = NS + "user_input"
FIRST_OCC = ("find", "find_first_of")
LAST_OCC = ("rfind", "find_last_of")
SPEC = "-{1,2}[^-=]+[^=]*=[\\x00-\\xff]*"


def run(ctx):
    prog = ctx.prog
    cg = callgraph(ctx)
    fe = facts.FactsEngine(prog, cg)
    lg = fe.lg
    for r, d in (("R02.1", "values travel verbatim from the token to the stored result; split at the first '='"),
                 ("R02.2", "list-valued results grow only by appending"),
                 ("R02.3", "value taken from the `=` part or the next value token; the extra advance exactly then"),
                 ("R02.4", "the token syntax check (regex literal or character comparisons) does not constrain the value part")):
        ctx.rule(r, d)

    # ---- R02.1a: update_value stores a carrier of arg.value()
    for k, fld in (("option", NS + "option::value_"), ("multi_option", NS + "multi_option::value_")):
        f = one(ctx, "R02.1", NS + k + "::update_value")
        if not f:
            continue
        pn = f.params[0]["name"]
        src = lambda m, pn=pn: isinstance(m, dict) and m.get("k") == "call" and m.get("name") == UI + "::value" and fmt(m.get("this")) == pn
        nw = 0
        for bid, i, e in f.roots():
            for eff, lv, n in tree_effects(e["expr"], into_sc=False):
                if eff in ("write", "maybe_write") and lv is not None:
                    kind, key, _ = lvalue_root(lv)
                    if kind == "field" and key[0] == fld and key[1] == "this":
                        nw += 1
                        rhs = n["r"] if n.get("k") == "bin" else (n["args"][0] if n.get("args") else None)
                        okc, why = valueflow.carrier(f, rhs, src)
                        ctx.check(okc, "R02.1", f, "stores-value-verbatim", "%s::update_value stores %s - not the token's value() verbatim: %s" % (k, fmt(rhs), why), (f, e.get("ln")), why_ok=fmt(rhs))
        ctx.need("R02.1", "value stores in %s::update_value" % k, nw, 1)

    # ---- R02.1b: user_input::value()
    vf = one(ctx, "R02.1", UI + "::value")
    if vf:
        IN, before = fe.analyse(vf)
        is_value = Not(("a", "(this.name_[0] == '-')"))
        nret = 0
        for bid, i, e in vf.roots():
            x = e["expr"]
            if x.get("k") != "return" or bid not in IN:
                continue
            nret += 1
            st = before.get((bid, i)) or frozenset()
            r = fmt(ir.unwrap(x.get("e")))
            if logic.entails(st, is_value, lg.axioms)[0] is True:
                ctx.check(r == "arg_", "R02.1", vf, "value-token-returns-whole-argument", "for a value token value() returns %s instead of the whole argument: a value such as `k=v` given as its own token is cut" % r, (vf, e.get("ln")))
            elif logic.entails(st, Not(is_value), lg.axioms)[0] is True:
                ctx.check(r in ("(*value_)", "value_.operator*()"), "R02.1", vf, "assignment-token-returns-value-part", "for a `name=value` token value() returns %s instead of the part after the first '='" % r, (vf, e.get("ln")))
            else:
                ctx.bad("R02.1", vf, "value-return-undetermined@%s" % _rel(vf, e),
                        "value() returns %s at line %s on a path where it is not known whether the token is a pure value: a value token containing '=' "
                        "(e.g. `--define K=V`) can be cut at the '='" % (r, e.get("ln")), (vf, e.get("ln")), detail={"facts": [logic.show(g) for g in st]})
        ctx.need("R02.1", "returns of user_input::value()", nret, 1)

    # ---- R02.1c: the constructor's split
    ctors = [f for f in prog.methods_of(UI) if f.kind == "ctor" and f.has_cfg and not f.flags.get("implicit") and not f.flags.get("copy_ctor") and not f.flags.get("move_ctor")]
    ctx.need("R02.1", "user_input constructors", len(ctors), 1)
    nsplit = 0
    for c in ctors:
        IN, before = fe.analyse(c)
        seps = {}
        for bid, i, e in c.roots():
            x = e["expr"]
            if x.get("k") == "decl":
                for v in x.get("vars", []):
                    init = ir.unwrap(v.get("init"))
                    if isinstance(init, dict) and init.get("k") == "call" and short(init.get("name") or "") in FIRST_OCC + LAST_OCC + ("find_if", "strchr", "strrchr"):
                        seps[v["name"]] = init
        for bid, i, e in c.roots():
            for eff, lv, n in tree_effects(e["expr"], into_sc=False):
                if eff not in ("write", "maybe_write") or lv is None:
                    continue
                kind, key, _ = lvalue_root(lv)
                if kind != "field" or key[1] != "this" or short(key[0]) not in ("value_", "name_"):
                    continue
                rhs = ir.unwrap(n["r"] if n.get("k") == "bin" else (n["args"][0] if n.get("args") else None))
                which = short(key[0])
                s = fmt(rhs)
                if which == "name_" and s == "arg_":
                    ctx.ok("R02.1", c, "name-is-whole-token", "name_ = arg_ when there is no '='", (c, e.get("ln")))
                    continue
                m = re.fullmatch(r"arg_\.substr\((.*)\)", s)
                if not m:
                    ctx.bad("R02.1", c, "split:%s" % which, "%s is assigned %s, not a substring of the argument" % (which, s), (c, e.get("ln")))
                    continue
                nsplit += 1
                args = [a for a in rhs.get("args", []) if not (isinstance(a, dict) and a.get("k") == "defarg")]
                sepname = None
                for a in args:
                    for y in walk(a):
                        if y.get("k") == "ref" and y.get("decl", "").startswith("local:") and y["decl"][6:] in seps:
                            sepname = y["decl"][6:]
                if sepname is None:
                    ctx.broken("R02.1", c, "split:%s" % which, "cannot relate %s to a separator search" % s, (c, e.get("ln")))
                    continue
                srch = seps[sepname]
                nm = short(srch.get("name") or "")
                needle = ir.unwrap(srch["args"][0]) if srch.get("args") else None
                needle_ok = isinstance(needle, dict) and needle.get("k") == "lit" and needle.get("v") in ("=", ord("="))
                on_arg = fmt(srch.get("this")) == "arg_"
                if nm in LAST_OCC:
                    ctx.bad("R02.1", c, "split-at-first-equals:%s" % which, "the token is split at the LAST '=' (%s): `--opt=a=b` yields name `--opt=a`" % fmt(srch), (c, e.get("ln")))
                elif nm in FIRST_OCC and needle_ok and on_arg:
                    want = "(%s + 1)" % sepname if which == "value_" else "0, %s" % sepname
                    got = ", ".join(fmt(a) for a in args)
                    ctx.check(got == want, "R02.1", c, "split-at-first-equals:%s" % which, "%s = arg_.substr(%s): expected substr(%s)" % (which, got, want), (c, e.get("ln")), why_ok=s)
                else:
                    ctx.broken("R02.1", c, "split-at-first-equals:%s" % which, "separator search %s is not a recognised first-occurrence search for '=' on arg_" % fmt(srch), (c, e.get("ln")))
    ctx.need("R02.1", "substring assignments in the constructor", nsplit, 2)
    # name_/value_ not written elsewhere
    for f2 in prog.methods_of(UI):
        if not f2.has_cfg or f2.kind == "ctor":
            continue
        for (fq, base, n2, b2, i2, how) in cg.field_writes(f2):
            if base == "this" and short(fq) in ("name_", "value_", "arg_"):
                ctx.bad("R02.1", f2, "token-immutable:" + short(fq), "%s modifies %s after construction" % (short(f2.qual), short(fq)), (f2, n2.get("ln") if isinstance(n2, dict) else None))

    # ---- R02.2
    parse = prog.fn(PARSE_VEC)
    if ctx.anchor("R02.2", PARSE_VEC, parse is not None):
        reach = cg.reachable([parse.id])
        nlist = 0
        for fid in sorted(reach):
            f = prog.fn(fid)
            if f is None or not f.has_cfg or not f.file.startswith("/repo/"):
                continue
            for bid, i, e in f.roots():
                for n in walk(e["expr"], into_sc=False):
                    if n.get("k") != "call" or n.get("this") is None or n.get("op"):
                        continue
                    recv = ir.unwrap(n["this"])
                    target = None
                    if isinstance(recv, dict) and recv.get("k") == "member" and recv["field"] == NS + "multi_option::value_":
                        target = "multi_option::value_"
                    if f.id == PARSE_VEC and isinstance(recv, dict) and recv.get("k") == "ref" and recv["decl"].startswith("local:") and "vector<std::string>" in (recv.get("type") or "").replace("basic_string<char>", "string"):
                        target = "positionals"
                    if not target:
                        continue
                    nm = short(n.get("name") or "")
                    cid = n.get("callee") or ""
                    from sa.callgraph import is_const_method_id
                    if is_const_method_id(cid):
                        continue
                    nlist += 1
                    okm = nm in ("push_back", "emplace_back", "clear")
                    if not okm and nm == "swap" and f.name == "check" and len(n.get("args", [])) == 1:
                        # the environment list is collected in a local first and committed in one step (R03.1: only where nothing was given, so the
                        # member is empty): the local itself is append-only, so the order of the pieces is the order they were cut in
                        a0 = ir.unwrap(n["args"][0])
                        if isinstance(a0, dict) and a0.get("k") == "ref" and str(a0.get("decl", "")).startswith("local:"):
                            lname = a0["decl"][6:]
                            mods = [short(m.get("name") or "") for _, _, e2 in f.roots() for m in walk(e2["expr"], into_sc=False)
                                    if isinstance(m, dict) and m.get("k") == "call" and m.get("this") is not None and fmt(ir.unwrap(m["this"])) == lname and not is_const_method_id(m.get("callee") or "")]
                            okm = bool(mods) and all(x in ("push_back", "emplace_back", "reserve") for x in mods)
                    ctx.check(okm, "R02.2", f, "append-only:%s:%s" % (target, nm), "%s is modified with %s() on the parse path: values no longer keep command-line order" % (target, nm), (f, n.get("ln")))
            # whole-list algorithms applied to the lists
            for bid, i, e in f.roots():
                for n in walk(e["expr"], into_sc=False):
                    if n.get("k") == "call" and short(n.get("name") or "") in ("sort", "stable_sort", "unique", "reverse", "rotate", "shuffle", "remove", "remove_if"):
                        s = fmt(n)
                        if "value_" in s or "positionals" in s:
                            ctx.bad("R02.2", f, "reorders:" + short(n["name"]), "%s reorders/dedups a result list" % s[:80], (f, n.get("ln")))
        ctx.need("R02.2", "list modifications on the parse path", nlist, 2)

    # ---- R02.3
    tpos = bodies_of(prog, NS + "parser::try_parse_as_option")
    ctx.need("R02.3", "try_parse_as_option instantiations", len(tpos), 2)
    for f in tpos:
        IN, before = fe.analyse(f)
        itp = f.params[1]["name"]
        endp = f.params[2]["name"]
        has_value_it = lg.formula({"k": "call", "callee": UI + "::has_value() const", "name": UI + "::has_value", "type": "bool",
                                   "this": {"k": "un", "op": "*", "e": {"k": "ref", "decl": "param:" + itp}}, "args": []})
        ups = []
        for bid, i, e in f.roots():
            for n in elem_calls(e):
                if short(n.get("name") or "") == "update_value" and bid in IN:
                    ups.append((bid, i, e, n))
        ctx.need("R02.3", "update_value sites in " + short(f.qual), len(ups), 2)
        next_users = []
        for bid, i, e, n in ups:
            a = ir.unwrap(n["args"][0]) if n.get("args") else None
            st = before.get((bid, i)) or frozenset()
            src = logic.objpath(a)
            if src == "(*%s)" % itp:
                ok = logic.entails(st, has_value_it, lg.axioms)[0] is True
                ctx.check(ok, "R02.3", f, "inline-value-under-has_value", "the matched token itself is used as the value source without has_value()", (f, e.get("ln")))
            else:
                # (*next) with next = it + 1
                m = re.fullmatch(r"\(\*(\w+)\)", src)
                nxt = m.group(1) if m else None
                init = None
                for b2, i2, e2 in f.roots():
                    x = e2["expr"]
                    if x.get("k") == "decl":
                        for v in x.get("vars", []):
                            if v["name"] == nxt:
                                init = fmt(ir.unwrap(v.get("init")))
                ctx.check(init in ("(%s + 1)" % itp, "next(%s)" % itp, "next(%s, 1)" % itp), "R02.3", f, "next-is-it+1", "the separate value token is taken from %s = %s, not the token right after the option" % (nxt, init), (f, e.get("ln")))
                goal = And(Not(has_value_it), And(Not(("a", "(%s == %s)" % tuple(sorted([endp, nxt or "?"])))), Not(("a", "((*%s).name_[0] == '-')" % nxt))))
                ok, cm = logic.entails(st, goal, lg.axioms)
                ctx.check(ok is True, "R02.3", f, "next-token-is-a-value", "the next token is consumed as the option's value without `!has_value() && next != end && next->is_value()` on that path "
                          "(an option-like or absent token would be taken as a value)", (f, e.get("ln")), detail={"facts": [logic.show(g) for g in st]})
                next_users.append((bid, i, e))
        # the extra ++it: exactly on paths that consumed the next token
        incs = []
        for bid, i, e in f.roots():
            for eff, lv, n in tree_effects(e["expr"], into_sc=False):
                if eff == "write" and lv is not None and lvalue_root(lv)[:2] == ("param", itp) and bid in IN:
                    incs.append((bid, i, e))
        ctx.need("R02.3", "extra advance of the iterator in " + short(f.qual), len(incs), 1)
        is_inc = lambda x: any(x is t[2] for t in incs)
        is_ret_true = lambda x: isinstance(x.get("expr"), dict) and x["expr"].get("k") == "return" and literal_value(x["expr"].get("e")) == ("bool", True)
        for (bid, i, e) in next_users:
            p = cfg.reaches_without(f, (bid, i), is_ret_true, is_inc)
            ctx.check(p is None, "R02.3", f, "advance-after-next-value", "the next token is consumed as a value but the iterator is not advanced before returning: the value would be parsed again as an argument", (f, e.get("ln")))
        for (bid, i, e) in incs:
            ok, path = cfg.must_precede(f, lambda x: any(x is t[2] for t in next_users), lambda x, t=e: x is t)
            ctx.check(ok, "R02.3", f, "advance-only-after-next-value", "`++%s` at line %s can run on a path that did not consume the next token: a token would be skipped" % (itp, e.get("ln")), (f, e.get("ln")))

    # ---- R02.5: typed access converts the stored text through a stream in its default (decimal) state
    ctx.rule("R02.5", "as<T>() only inserts the stored string into a fresh stream and extracts the result: no manipulators, flags or locale")
    as_fns = [f for f in prog.fns.values() if f.has_cfg and f.name == "as" and f.cls in (NS + "option", NS + "multi_option")]
    ctx.need("R02.5", "as<T>() bodies", len(as_fns), 3)
    for f in as_fns:
        streams = set()
        for bid, i, e in f.roots():
            x = e["expr"]
            if x.get("k") == "decl":
                for v in x.get("vars", []):
                    if "stringstream" in (v.get("type") or "") or "istringstream" in (v.get("type") or ""):
                        streams.add(v["name"])
                        init = ir.unwrap(v.get("init"))
                        iargs = [a for a in (init or {}).get("args", []) if not (isinstance(a, dict) and a.get("k") == "defarg")] if isinstance(init, dict) else []
                        if iargs:
                            okc = all(fmt(ir.unwrap(a)) in ("(*value_)", "value_[i]") or re.fullmatch(r"value_\[\w+\]", fmt(ir.unwrap(a))) for a in iargs)
                            ctx.check(okc, "R02.5", f, "stream-initialised-with-value", "the conversion stream is constructed from %s" % [fmt(a) for a in iargs], (f, e.get("ln")))
        tag = _tag(f)
        if not streams:
            # the std::string-constructible overload: T(*value_)
            rets = [fmt(ir.unwrap(e["expr"].get("e"))) for _, _, e in f.roots() if e["expr"].get("k") == "return"]
            ctx.check(all(re.fullmatch(r"\w*\{?\(?\(\*value_\)\)?\}?|T\{\(\*value_\)\}", r) or "(*value_)" in r for r in rets), "R02.5", f, "direct-construction:" + tag,
                      "as<T>() returns %s" % rets, f)
            continue
        bad = []
        nops = 0
        for bid, i, e in f.roots():
            for n in walk(e["expr"], into_sc=False):
                if n.get("k") not in ("call", "bin"):
                    continue
                if n.get("k") == "bin" and n["op"] not in ("<<", ">>"):
                    continue
                txt = fmt(n)
                if not any(re.search(r"\b%s\b" % s0, txt) for s0 in streams):
                    continue
                bo = ir.as_binop(n)
                if bo and bo[0] in ("<<", ">>"):
                    nops += 1
                    rhs = fmt(ir.unwrap(bo[2]))
                    lhs_is_stream = fmt(ir.unwrap(bo[1])) in streams
                    if bo[0] == "<<" and (rhs == "(*value_)" or re.fullmatch(r"value_\[\w+\]", rhs)) and lhs_is_stream:
                        continue
                    if bo[0] == ">>" and rhs == "result" and lhs_is_stream:
                        continue
                    bad.append((n, "%s %s" % (bo[0], rhs)))
                else:
                    from .common import sets_default_flags
                    if sets_default_flags(txt, streams):
                        continue
                    bad.append((n, txt[:60]))
        for n, what in bad:
            ctx.bad("R02.5", f, "stream-manipulated:%s:%s" % (tag, what[:40]), "as<T>() applies `%s` to the conversion stream: the decimal text given on the command line is no longer read as the number it spells" % what, (f, n.get("ln")))
        if not bad:
            ctx.ok("R02.5", f, "plain-insert-extract:" + tag, "%d stream operations, all plain" % nops, f)
        # the text is extracted INTO the requested type and handed back as it is: an intermediate of another type (read as long long, then
        # narrowed) gives a different number wherever the two types' ranges differ (unsigned 64-bit values above LLONG_MAX)
        want_t = f.ret if f.ret and f.ret not in ("auto",) else None
        if want_t and re.match(r"(typename )?std::enable_if(_t)?<", want_t):
            # enable_if_t<condition, T>: the second argument (top-level comma)
            inner = want_t[want_t.index("<") + 1:want_t.rindex(">")]
            depth0, cut = 0, None
            for j, ch in enumerate(inner):
                if ch in "<(":
                    depth0 += 1
                elif ch in ">)":
                    depth0 -= 1
                elif ch == "," and depth0 == 0:
                    cut = j
            want_t = inner[cut + 1:].strip() if cut is not None else None
        for bid, i, e in f.roots():
            x = e["expr"]
            if x.get("k") == "decl":
                for v in x.get("vars", []):
                    if v["name"] == "result" or any(fmt(ir.unwrap(ir.as_binop(n2)[2])) == v["name"] for _, _, e2 in f.roots() for n2 in walk(e2["expr"], into_sc=False) if ir.as_binop(n2) and ir.as_binop(n2)[0] == ">>"):
                        vt = (v.get("type") or "").strip()
                        ctx.check(want_t is None or vt == want_t.strip(), "R02.5", f, "extracts-into-requested-type:" + tag,
                                  "as<T>() extracts the text into a `%s` and returns `%s`: the number goes through a type of another range" % (vt, want_t), (f, e.get("ln")), why_ok="extracted as %s" % vt)
        for bid, i, e in f.roots():
            x = e["expr"]
            if x.get("k") == "return" and x.get("e") is not None:
                r0 = ir.unwrap(x["e"])
                while isinstance(r0, dict) and r0.get("k") == "construct" and len(r0.get("args", [])) == 1 and (r0.get("copy") or r0.get("move") or r0.get("elidable")):
                    r0 = ir.unwrap(r0["args"][0])
                plain = isinstance(r0, dict) and (r0.get("k") == "ref" or (r0.get("k") == "call" and (r0.get("name") or "") == "std::move"))
                ctx.check(plain, "R02.5", f, "returns-extracted-value:" + tag, "as<T>() returns `%s` instead of the extracted value itself (a conversion after the extraction)" % fmt(r0)[:60], (f, e.get("ln")))

    # ---- R02.9: when one spelling could mean two things, value-taking options are asked first
    ctx.rule("R02.9", "in the token loop both try_parse_as_option attempts (options, multi-options) come before try_parse_as_toggle: `--no-cache` spells the option `no-cache` "
                      "where one is declared, and only otherwise the reversal of the toggle `cache`")
    pv = prog.fn(PARSE_VEC)
    if ctx.anchor("R02.9", "parser::parse", pv is not None and pv.has_cfg):
        tpo_ids = sorted({n.get("callee") for _, _, e in pv.roots() for n in elem_calls(e) if short(n.get("name") or "") == "try_parse_as_option" and n.get("callee")})
        ctx.need("R02.9", "try_parse_as_option instantiations called from parse()", len(tpo_ids), 2)
        is_tog = lambda e: e.get("expr") is not None and any(short(n.get("name") or "") == "try_parse_as_toggle" for n in elem_calls(e))
        for cid in tpo_ids:
            okp, pth = cfg.must_precede(pv, lambda e, cid=cid: e.get("expr") is not None and any(n.get("callee") == cid for n in elem_calls(e)), is_tog)
            kind = "multi_option" if "multi_option" in cid else "option"
            ctx.check(okp, "R02.9", pv, "options-before-toggles:" + kind, "try_parse_as_toggle can run (B%s) before the %ss were asked: a `--no-<x>` token goes to the toggle <x> although an option named `no-<x>` is declared"
                      % ("->B".join(map(str, pth or [])), kind), pv)
    # ---- R02.4
    nlit = 0
    for c in ctors:
        for bid, i, e in c.roots():
            for n in walk(e["expr"]):
                if n.get("k") == "construct" and "basic_regex" in (n.get("name") or "") and n.get("args"):
                    a0 = ir.unwrap(n["args"][0])
                    if isinstance(a0, dict) and a0.get("k") == "lit":
                        nlit += 1
                        try:
                            A = regexlang.compile(a0["v"])
                            S = regexlang.compile(SPEC)
                            okr, w = regexlang.included(S, A)
                            ctx.check(okr, "R02.4", c, "value-part-unconstrained",
                                      "the token regex %r rejects %r: a value after '=' cannot contain that byte, so `--name=value` does not deliver every byte string"
                                      % (a0["v"], (w or b"").decode("latin-1")), (c, n.get("ln")), why_ok="L(%s) included in L(%s)" % (SPEC, a0["v"]))
                        except regexlang.Unsupported as ex:
                            ctx.broken("R02.4", c, "value-part-unconstrained", "regex outside the modelled subset: %s" % ex, (c, n.get("ln")))
                        except regexlang.SyntaxError_ as ex:
                            ctx.bad("R02.4", c, "value-part-unconstrained", "malformed regex literal: %s" % ex, (c, n.get("ln")))
    if nlit == 0:
        # the check written out by hand (character comparisons): decided on the finite abstraction of the token space (A10)
        from .common import token_syntax_by_hand, show_token
        S = regexlang.compile(SPEC)
        for c in ctors:
            if len(c.params) != 1 or "string" not in (c.params[0].get("type") or "") or not any(c.is_noreturn(b) for b in c.blocks):
                continue
            nlit += 1
            res, why = token_syntax_by_hand(ctx, c)
            if res is None:
                ctx.broken("R02.4", c, "value-part-unconstrained", "the token check is outside the finite token abstraction: %s" % why, c)
                continue
            cex = sorted((t for t, v in res["verdicts"].items() if v[0] != "accept" and S.accepts(t)), key=lambda t: (len(t), t))
            ctx.check(not cex, "R02.4", c, "value-part-unconstrained",
                      "the token check refuses `%s` (%s): a well-formed name followed by '=' does not take every byte string as its value"
                      % (show_token(cex[0], res["other"]) if cex else "", res["verdicts"][cex[0]][1] if cex else ""), (c, (res["verdicts"][cex[0]][2] or {}).get("ln") if cex else None),
                      why_ok="all %d abstract tokens (bytes %s + any other, length <= %d; reads up to index %d, lengths compared with up to %d) in L(%s) are accepted"
                      % (len(res["verdicts"]), "".join(chr(b) for b in res["alphabet"][:-1]), res["length"], res["K"], res["C"], SPEC))
    ctx.need("R02.4", "validation regex literal", nlit, 1)
    ctx.trust("ECMAScript `.` matches any character except line terminators (Appendix D.8)")
    # ---- R02.6: an occurrence count per toggle - C11's counting rules re-evaluated (count reset to 0, one increment of the required form per token)
    ctx.rule("R02.6", "a toggle's result is the number of its occurrences: counted from zero, once per token (R11.1/R11.6 re-evaluated)")
    if ctx.prop == "C02" and not getattr(ctx, "_sharing", False):
        from . import C11
        sub = type(ctx)(ctx.prop, ctx.prog, ctx.tier)
        sub._sharing = True
        C11.run(sub)
        n6 = 0
        for o in sub.obs:
            if o.rule in ("R11.1", "R11.6"):
                n6 += 1
                o.rule = "R02.6"
                ctx.obs.append(o)
        ctx.need("R02.6", "toggle counting obligations shared with C11", n6, 5)
    # ---- R02.7: a value given on the command line (the empty string included) is final; bundles are accounted over ALL toggles
    ctx.rule("R02.7", "a spelled value is never replaced afterwards (R03.1 re-evaluated) and a bundle is accepted exactly when all its letters are toggles (R01.8/R01.10 re-evaluated)")
    if ctx.prop == "C02" and not getattr(ctx, "_sharing", False):
        from .common import share
        share(ctx, "C03", ("R03.1",), "R02.7", "source-order obligations shared with C03", 3)
        share(ctx, "C13", ("R13.1",), "R02.7", "declaration obligations shared with C13 (a refused re-declaration leaves no entry behind: a ghost option of the same name would be offered the token first and swallow the value)", 4)
        share(ctx, "C01", ("R01.5", "R01.8", "R01.10"), "R02.7", "matching/bundle obligations shared with C01", 5)
    # ---- R02.8: what the spelling means does not depend on the parser object's past or on the entry point taken
    ctx.rule("R02.8", "a spelled value is not rejected or replaced because of an earlier parse (R14.2 re-evaluated) and raw strings become tokens in one place only (R12.10 re-evaluated)")
    if ctx.prop == "C02" and not getattr(ctx, "_sharing", False):
        from .common import share
        share(ctx, "C14", ("R14.2", "R14.3", "R14.5"), "R02.8", "reset obligations shared with C14 (emptied state, the reset pass runs on every parse, the parse path keeps nothing in the parser object)", 3)
        share(ctx, "C12", ("R12.10", "R12.11", "R12.13"), "R02.8", "entry-point obligations shared with C12 (and the parser's settings travel with it when it is moved)", 3)
    ctx.assume("the round-trip equation itself, interleavings of items and as<T>() numeric conversion are not decided")


def _tag(f):
    return ("pattern" if f.is_pattern else "inst") + ":" + short(f.cls or "") + ":" + str(len(f.params)) + (":ctor" if "is_constructible<T, std::string>::value, T>" in f.id and "!std" not in f.id else "")


def _rel(f, e):
    return "+%d" % ((e.get("ln") or f.line) - f.line)
