// Type-level witness for C07 (fixed_vector as a bounded sequence). Only type-checked.
#include <memory>
#include <iterator>
#include <string>
#include <type_traits>
#include <vector>
#include <nitro/lang/fixed_vector.hpp>

namespace
{
using fv = nitro::lang::fixed_vector<int>;

static_assert(std::is_same<decltype(std::declval<fv&>() = std::declval<const fv&>()), fv&>::value, "[C07 w1] copy assignment returns fixed_vector& (an assignment that yields a temporary cannot have changed *this)");
static_assert(std::is_same<decltype(std::declval<fv&>() = std::declval<fv&&>()), fv&>::value, "[C07 w2] move assignment returns fixed_vector&");
static_assert(std::is_same<decltype(std::declval<fv&>() = std::declval<const std::initializer_list<int>&>()), fv&>::value, "[C07 w3] assignment from an initializer_list returns fixed_vector&");

static_assert(std::is_same<decltype(std::declval<fv&>().rbegin()), fv::reverse_iterator>::value, "[C07 w4] rbegin() yields a reverse_iterator (incrementing a plain pointer walks forward)");
static_assert(std::is_same<decltype(std::declval<fv&>().rend()), fv::reverse_iterator>::value, "[C07 w5] rend() yields a reverse_iterator");
static_assert(std::is_same<decltype(std::declval<const fv&>().rbegin()), fv::const_reverse_iterator>::value, "[C07 w6] rbegin() const yields a const_reverse_iterator");
static_assert(std::is_same<decltype(std::declval<const fv&>().rend()), fv::const_reverse_iterator>::value, "[C07 w7] rend() const yields a const_reverse_iterator");
static_assert(std::is_same<decltype(std::declval<const fv&>().crbegin()), fv::const_reverse_iterator>::value, "[C07 w8] crbegin() yields a const_reverse_iterator");
static_assert(std::is_same<decltype(std::declval<const fv&>().crend()), fv::const_reverse_iterator>::value, "[C07 w9] crend() yields a const_reverse_iterator");
static_assert(std::is_same<decltype(std::declval<fv&>().begin()), fv::iterator>::value, "[C07 w10] begin() yields iterator");
static_assert(std::is_same<decltype(std::declval<const fv&>().begin()), fv::const_iterator>::value, "[C07 w11] begin() const yields const_iterator");
static_assert(std::is_same<fv::reverse_iterator, std::reverse_iterator<int*>>::value, "[C07 w12] reverse_iterator is std::reverse_iterator<iterator>");
static_assert(std::is_copy_constructible<fv>::value && std::is_move_constructible<fv>::value, "[C07 w13] fixed_vector is copy- and move-constructible");
} // namespace

// must-compile: every member of the class for ordinary element types
template class nitro::lang::fixed_vector<int>; // [C07 m1] explicit instantiation of all members for int
template class nitro::lang::fixed_vector<std::string>; // [C07 m2] explicit instantiation of all members for std::string

namespace
{
void use_templates()
{
    nitro::lang::fixed_vector<std::string> v(4);
    std::vector<std::string> src{ "a", "b" };
    v.emplace(v.begin(), "x"); // [C07 m3] positional emplace
    v.emplace_back(3, 'c'); // [C07 m4] emplace_back with constructor arguments
    v.insert(v.begin(), src.begin(), src.end()); // [C07 m5] range insert
    v.push_back(src.begin(), src.end()); // [C07 m6] range push_back
    nitro::lang::fixed_vector<std::string> w(4, src); // [C07 m7] (capacity, iterable) constructor
    nitro::lang::fixed_vector<std::unique_ptr<int>> m(2);
    m.emplace_back(new int(1)); // [C07 m8] move-only element: emplace_back
    m.insert(std::make_unique<int>(2)); // [C07 m9] move-only element: insert(T&&)
    m.erase(m.begin()); // [C07 m10] move-only element: erase
    nitro::lang::fixed_vector<std::unique_ptr<int>> m2(std::move(m)); // [C07 m11] move-only element: move construction
    (void)std::get<0>(v); // [C07 m12] std::get<I>
}
} // namespace
