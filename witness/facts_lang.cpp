// Witness unit (facts): brings the header-only lang/ templates into a translation unit so that the
// extractor sees their patterns *and* concrete instantiations. Nothing here is executed.
#include <memory>
#include <iterator>
#include <string>
#include <vector>
#include <list>
#include <map>
#include <array>
#include <tuple>
#include <variant>

#include <nitro/lang/fixed_vector.hpp>
#include <nitro/lang/optional.hpp>
#include <nitro/lang/quaint_ptr.hpp>
#include <nitro/lang/hash.hpp>
#include <nitro/lang/tuple_operators.hpp>
#include <nitro/lang/unordered.hpp>
#include <nitro/lang/enumerate.hpp>
#include <nitro/lang/reverse.hpp>
#include <nitro/lang/string.hpp>
#include <nitro/lang/string_ref.hpp>
#include <nitro/lang/tuple_foreach.hpp>

namespace vwit
{
struct payload
{
    payload(int a, std::string b) : a(a), b(std::move(b)) {}
    int a;
    std::string b;
};

struct key : nitro::lang::tuple_operators<key>
{
    key(int a, std::string b) : a(a), b(std::move(b)) {}
    auto as_tuple() { return std::tie(a, b); }
    int a;
    std::string b;
};

// ---------------------------------------------------------------- quaint_ptr / optional
void use_quaint()
{
    auto p = nitro::lang::make_quaint<payload>(1, "x");
    nitro::lang::quaint_ptr q;
    q = std::move(p);
    nitro::lang::quaint_ptr r(std::move(q));
    (void)r.as<payload>().a;
    r.reset();
    (void)static_cast<bool>(r);
}

template <typename T>
void use_optional(const T& v)
{
    nitro::lang::optional<T> a;
    nitro::lang::optional<T> b(v);
    nitro::lang::optional<T> c(b);
    nitro::lang::optional<T> d{ T(v) };
    a = b;
    a = v;
    a = T(v);
    (void)*a;
    (void)static_cast<bool>(a);
}
// which constructor does a copy of an optional select? (payload types that are constructible from optional itself -
// bool through the explicit operator bool - would be hijacked by an unconstrained forwarding constructor)
void optional_copies(nitro::lang::optional<bool>& lvalue, const nitro::lang::optional<bool>& clvalue)
{
    nitro::lang::optional<bool> from_lvalue(lvalue);
    nitro::lang::optional<bool> from_const(clvalue);
    nitro::lang::optional<bool> from_moved(std::move(lvalue));
    from_lvalue = clvalue; // (instantiates the copy assignment and operator* for this payload as well)
    (void)*from_const;
    (void)static_cast<bool>(from_moved);
}

// which assignment operator does `dst = src` select for each value category of a fixed_vector source?
void fixed_vector_assignments(nitro::lang::fixed_vector<int>& dst, nitro::lang::fixed_vector<int>& lvalue, const nitro::lang::fixed_vector<int>& clvalue)
{
    dst = lvalue;
    dst = clvalue;
    dst = std::move(lvalue);
    dst = { 1, 2 };
}
// a value of the payload type makes the optional engaged - also when the payload is pointer-like and the value is nullptr
void optional_values(nitro::lang::optional<const int*>& target)
{
    nitro::lang::optional<const int*> from_null(nullptr);
    target = nullptr;
    (void)*from_null;
    nitro::lang::optional<const int*> copy(from_null); // (instantiates the copy operations for this payload as well)
    copy = target;
    (void)static_cast<bool>(copy);
}

void use_optionals()
{
    use_optional<int>(1);
    use_optional<std::string>("x");
}

// ---------------------------------------------------------------- fixed_vector
template <typename T>
void use_fixed_vector_copyable(const T& v)
{
    using fv = nitro::lang::fixed_vector<T>;
    fv a(4);
    std::vector<T> src{ v, v };
    fv b(4, src);
    fv c{ v, v };
    fv d(c);
    fv e(std::move(d));
    a = c;
    a = std::move(e);
    a = { v };
    (void)a.empty();
    (void)a.size();
    (void)a.capacity();
    (void)a[0];
    (void)a.at(0);
    const fv& ca = a;
    (void)ca[0];
    (void)ca.at(0);
    (void)a.front();
    (void)ca.front();
    (void)a.back();
    (void)ca.back();
    a.emplace(a.begin(), v);
    a.emplace_back(v);
    a.insert(T(v));
    a.insert(a.begin(), src.begin(), src.end());
    std::initializer_list<T> il{ v };
    a.insert(a.begin(), il);
    a.push_back(v);
    a.push_back(src.begin(), src.end());
    a.pop_back();
    (void)a.begin(); (void)a.end(); (void)a.rbegin(); (void)a.rend();
    (void)ca.begin(); (void)ca.end(); (void)ca.rbegin(); (void)ca.rend();
    (void)ca.cbegin(); (void)ca.cend(); (void)ca.crbegin(); (void)ca.crend();
    a.erase(a.begin());
    (void)a.data();
    (void)ca.data();
    (void)std::get<0>(a);
}
void use_fixed_vector_moveonly()
{
    using fv = nitro::lang::fixed_vector<std::unique_ptr<int>>;
    fv a(4);
    a.emplace_back(std::make_unique<int>(1));
    a.insert(std::make_unique<int>(2));
    fv b(std::move(a));
    b.erase(b.begin());
    b.pop_back();
    (void)b.at(0);
    (void)b.size();
}
// an element type that is constructible from anything (std::any, json values, variants with a converting constructor template):
// braces around a container of such elements prefer the initializer_list constructor - `fixed_vector tmp{ v }` would be a
// one-element container holding the whole source (R07.11 reads which constructor the assignment operators select for it)
struct greedy
{
    greedy() = default;
    template <typename U, typename = typename std::enable_if<!std::is_same<typename std::decay<U>::type, greedy>::value>::type>
    greedy(U&&)
    {
    }
};
void use_fixed_vector_greedy(nitro::lang::fixed_vector<greedy>& dst, const nitro::lang::fixed_vector<greedy>& src)
{
    nitro::lang::fixed_vector<greedy> other(2);
    dst = src;
    dst = std::move(other);
    dst = { greedy(), greedy() };
}
void use_fixed_vectors()
{
    use_fixed_vector_copyable<int>(1);
    use_fixed_vector_copyable<std::string>("x");
    use_fixed_vector_moveonly();
}

// ---------------------------------------------------------------- hash / tuple_operators
void use_hash()
{
    using nitro::lang::hash;
    (void)hash(std::tuple<>());
    (void)hash(std::tuple<int>(1));
    (void)hash(std::tuple<int, long>(1, 2));
    (void)hash(std::tuple<int, long, std::string>(1, 2, "3"));
    (void)hash(std::tuple<int, long, std::string, char>(1, 2, "3", '4'));
    (void)hash(std::tuple<int, long, std::string, char, double>(1, 2, "3", '4', 5.0));
    (void)hash(std::pair<int, std::string>(1, "2"));
    (void)hash(std::variant<int, std::string, double>(1));
    (void)hash(std::make_unique<int>(1));
    (void)hash(std::make_shared<std::string>("x"));
    key k1(1, "a"), k2(2, "b");
    (void)(k1 == k2); (void)(k1 != k2); (void)(k1 < k2); (void)(k1 > k2); (void)(k1 <= k2); (void)(k1 >= k2);
    (void)k1.hash();
    (void)hash(k1);
    nitro::lang::unordered_set<key> s;
    s.insert(k1);
    nitro::lang::unordered_map<key, int> m;
    m[k1] = 1;
    (void)nitro::lang::hash_wrapper<key>()(k1);
}

// ---------------------------------------------------------------- enumerate / reverse
void use_enumerate_reverse()
{
    std::vector<int> v{ 1, 2, 3 };
    const std::vector<int> cv{ 1, 2, 3 };
    std::array<int, 3> arr{ { 1, 2, 3 } };
    std::list<int> l{ 1, 2 };
    std::map<int, int> m{ { 1, 2 } };
    int raw[3] = { 1, 2, 3 };
    for (auto e : nitro::lang::enumerate(v)) { e.value() = (int)e.index(); }
    for (auto e : nitro::lang::enumerate(cv)) { (void)e.value(); }
    for (auto e : nitro::lang::enumerate(std::vector<int>{ 1, 2 })) { (void)e.index(); }
    for (auto e : nitro::lang::enumerate({ 1, 2, 3 })) { (void)e.index(); }
    for (auto e : nitro::lang::enumerate(arr)) { (void)e.index(); }
    for (auto e : nitro::lang::enumerate(l)) { (void)e.index(); }
    for (auto e : nitro::lang::enumerate(m)) { (void)e.index(); }
    for (auto e : nitro::lang::enumerate(raw)) { (void)e.index(); }
    for (auto& x : nitro::lang::reverse(v)) { x = 0; }
    for (auto& x : nitro::lang::reverse(cv)) { (void)x; }
    for (auto& x : nitro::lang::reverse(std::vector<int>{ 1, 2 })) { (void)x; }
    for (auto& x : nitro::lang::reverse({ 1, 2, 3 })) { (void)x; }
    for (auto& x : nitro::lang::reverse(arr)) { (void)x; }
    for (auto& x : nitro::lang::reverse(l)) { (void)x; }
    for (auto& x : nitro::lang::reverse(m)) { (void)x; }
    for (int& x : nitro::lang::reverse(raw)) { (void)x; }
}

// ---------------------------------------------------------------- string helpers / tuple_foreach
void use_strings()
{
    std::vector<std::string> v{ "a", "b" };
    (void)nitro::lang::join(v);
    (void)nitro::lang::join(v.begin(), v.end(), ",");
    std::vector<int> iv{ 1, 2 };
    (void)nitro::lang::join(iv.begin(), iv.end(), ",");
    (void)nitro::lang::split("a b", " ");
    (void)nitro::lang::starts_with("ab", "a");
    std::string s = "x";
    nitro::lang::replace_all(s, "x", "y");
    std::tuple<int, long, char> t(1, 2, '3');
    nitro::lang::tuple_foreach(t, [](auto& x) { (void)x; });
}
} // namespace vwit
