// Type-level witness for C12 / C02 (one place where raw strings become tokens). Only type-checked, never run.
// "Every token after the first `--` is a positional whatever it looks like" is implemented where parse(argc, argv) builds its tokens:
// behind `--` they are built verbatim, without the syntax check. An entry point of the parser that accepts RAW STRINGS in any other
// shape builds them through user_input's checking constructor: `-- -` or `-- ---x` raises there. Ranges of ready-made user_input
// objects are fine (the caller decided how each was built) - so the question is which iterator types an (Iter, Iter) overload accepts.
#include <deque>
#include <list>
#include <string>
#include <type_traits>
#include <utility>
#include <vector>
#include <nitro/options/parser.hpp>

namespace
{
using nitro::options::parser;
using nitro::options::user_input;

template <typename It, typename = void>
struct parses_pair : std::false_type {};
template <typename It>
struct parses_pair<It, decltype(void(std::declval<parser&>().parse(std::declval<It>(), std::declval<It>())))> : std::true_type {};

template <typename C, typename = void>
struct parses_container : std::false_type {};
template <typename C>
struct parses_container<C, decltype(void(std::declval<parser&>().parse(std::declval<const C&>())))> : std::true_type {};

static_assert(!parses_pair<std::vector<std::string>::iterator>::value, "[C12 w1] parser::parse must not accept a pair of iterators over std::string: the strings would become tokens through the syntax-checking constructor, also behind `--`");
static_assert(!parses_pair<std::vector<std::string>::const_iterator>::value, "[C12 w2] parser::parse must not accept a pair of const iterators over std::string (tokens behind `--` would be syntax-checked)");
static_assert(!parses_pair<std::list<std::string>::const_iterator>::value, "[C12 w3] parser::parse must not accept iterators into a list of std::string (tokens behind `--` would be syntax-checked)");
static_assert(!parses_pair<std::vector<const char*>::const_iterator>::value, "[C12 w4] parser::parse must not accept iterators over const char* (tokens behind `--` would be syntax-checked)");
static_assert(!parses_pair<const char* const*>::value, "[C12 w5] parser::parse must not accept a pointer pair into an argv-like array (tokens behind `--` would be syntax-checked; the (argc, argv) overload is the one that treats them verbatim)");
static_assert(!parses_pair<const std::string*>::value, "[C12 w6] parser::parse must not accept a pointer pair into an array of std::string (tokens behind `--` would be syntax-checked)");
static_assert(!parses_container<std::vector<std::string>>::value, "[C12 w7] parser::parse must not accept a vector of std::string (tokens behind `--` would be syntax-checked)");
static_assert(!parses_container<std::deque<std::string>>::value, "[C12 w8] parser::parse must not accept a deque of std::string (tokens behind `--` would be syntax-checked)");
static_assert(parses_container<std::vector<user_input>>::value, "[C12 w9] recogniser: parser::parse accepts a vector of ready-made tokens");
} // namespace
