// Type-level witness for C16 (hash / tuple_operators). Only type-checked.
#include <memory>
#include <string>
#include <tuple>
#include <type_traits>
#include <nitro/lang/hash.hpp>
#include <nitro/lang/tuple_operators.hpp>
#include <nitro/lang/unordered.hpp>
#include <nitro/meta/std_hashable.hpp>

namespace
{
struct key : nitro::lang::tuple_operators<key>
{
    key(int a, std::string b) : a(a), b(std::move(b)) {}
    auto as_tuple() { return std::tie(a, b); }
    int a;
    std::string b;
};
using nitro::meta::std_hashable;
static_assert(std_hashable<int>::value && std_hashable<unsigned long>::value && std_hashable<char>::value && std_hashable<bool>::value, "[C16 w1] integral types hash through std::hash");
static_assert(std_hashable<double>::value && std_hashable<float>::value, "[C16 w2] floating-point types hash through std::hash");
static_assert(std_hashable<std::string>::value && std_hashable<std::wstring>::value && std_hashable<std::u16string>::value && std_hashable<std::u32string>::value, "[C16 w3] the four string types hash through std::hash");
static_assert(!std_hashable<key>::value && !std_hashable<std::tuple<int>>::value && !std_hashable<int*>::value, "[C16 w4] nothing else is treated as a scalar");
static_assert(std::is_base_of<nitro::lang::hashable, key>::value, "[C16 w5] tuple_operators marks the type hashable");
static_assert(std::is_same<decltype(nitro::lang::hash(std::declval<const key&>())), std::size_t>::value, "[C16 w6] hash(key) is a size_t");
static_assert(std::is_same<decltype(std::declval<const key&>() < std::declval<const key&>()), bool>::value, "[C16 w7] operator< yields bool");
static_assert(std::is_empty<nitro::lang::tuple_operators<key>>::value || sizeof(nitro::lang::tuple_operators<key>) <= sizeof(void*), "[C16 w8] the mix-in carries no state of its own (only the virtual-base pointer)");
static_assert(std::is_same<nitro::lang::unordered_set<key>::hasher, nitro::lang::hash_wrapper<key>>::value, "[C16 w9] unordered_set uses hash_wrapper");
static_assert(std::is_same<nitro::lang::unordered_map<key, int>::hasher, nitro::lang::hash_wrapper<key>>::value, "[C16 w10] unordered_map uses hash_wrapper");

// key equality of the containers is the key type's own operator== (hash agrees with ==, so must the container)
static_assert(std::is_same<nitro::lang::unordered_set<key>::key_equal, std::equal_to<key>>::value, "[C16 w11] unordered_set compares keys with std::equal_to (the key's own ==)");
static_assert(std::is_same<nitro::lang::unordered_map<key, int>::key_equal, std::equal_to<key>>::value, "[C16 w12] unordered_map compares keys with std::equal_to (the key's own ==)");
static_assert(std::is_same<nitro::lang::unordered_set<std::shared_ptr<int>>::key_equal, std::equal_to<std::shared_ptr<int>>>::value, "[C16 w13] pointer keys are compared with their own == (identity)");

void uses()
{
    nitro::lang::unordered_set<key> s;
    s.insert(key(1, "a")); // [C16 m1] a tuple_operators type is usable as an unordered_set key
    (void)s.count(key(1, "a")); // [C16 m2] lookup compiles (hash + operator==)
    nitro::lang::unordered_map<key, int> m;
    m[key(1, "a")] = 1; // [C16 m3] usable as an unordered_map key
}
} // namespace
