// Witness unit (facts): a complete logger configuration so that stream.hpp / logger.hpp / filters / sinks are
// instantiated (compile-time minimum = default = trace, so every severity yields a smart_stream). Never executed.
#include <chrono>
#include <string>

#include <nitro/log/attribute/message.hpp>
#include <nitro/log/attribute/severity.hpp>
#include <nitro/log/attribute/tag.hpp>
#include <nitro/log/attribute/timestamp.hpp>
#include <nitro/log/filter/and_filter.hpp>
#include <nitro/log/filter/not_filter.hpp>
#include <nitro/log/filter/null_filter.hpp>
#include <nitro/log/filter/or_filter.hpp>
#include <nitro/log/filter/severity_filter.hpp>
#include <nitro/log/log.hpp>
#include <nitro/log/sink/null.hpp>
#include <nitro/log/sink/sequence.hpp>
#include <nitro/log/sink/stderr.hpp>
#include <nitro/log/sink/stderr_mt.hpp>
#include <nitro/log/sink/stdout.hpp>
#include <nitro/log/sink/stdout_mt.hpp>
#include <nitro/log/sink/stdout_omp.hpp>
#include <nitro/log/sink/logfile.hpp>
#include <nitro/log/sink/syslog.hpp>

namespace vwit
{
using record = nitro::log::record<nitro::log::tag_attribute, nitro::log::message_attribute,
                                  nitro::log::severity_attribute,
                                  nitro::log::timestamp_clock_attribute<std::chrono::system_clock>>;

template <typename Record>
class formatter
{
public:
    std::string format(Record& r)
    {
        return r.message();
    }
};

template <typename R>
using f_sev = nitro::log::filter::severity_filter<R>;
template <typename R>
using f_combo = nitro::log::filter::or_filter<
    nitro::log::filter::and_filter<nitro::log::filter::severity_filter<R, 1>,
                                   nitro::log::filter::not_filter<nitro::log::filter::severity_filter<R, 2>>>,
    nitro::log::filter::not_filter<nitro::log::filter::not_filter<nitro::log::filter::severity_filter<R, 3>>>>;
template <typename R>
using f_null = nitro::log::filter::null_filter<R>;

using seq_sink = nitro::log::sink::sequence<nitro::log::sink::StdOut, nitro::log::sink::StdErr,
                                            nitro::log::sink::stdout_mt, nitro::log::sink::StdErrThreaded>;

using log_mt = nitro::log::logger<record, formatter, nitro::log::sink::stdout_mt, f_sev>;
using log_err_mt = nitro::log::logger<record, formatter, nitro::log::sink::StdErrThreaded, f_combo>;
using log_seq = nitro::log::logger<record, formatter, seq_sink, f_null>;
using log_plain = nitro::log::logger<record, formatter, nitro::log::sink::StdOut, f_sev>;
using log_plain_err = nitro::log::logger<record, formatter, nitro::log::sink::StdErr, f_sev>;
using log_omp = nitro::log::logger<record, formatter, nitro::log::sink::StdOutOmp, f_sev>;

std::string lazy()
{
    return "lazy";
}

template <typename L>
void use_logger()
{
    L::trace() << "a" << 1;
    L::debug("tag") << "b" << 2.0;
    L::info() << "c" << [] { return std::string("callable"); };
    L::warn() << lazy;
    L::error() << "e";
    L::fatal() << "f";
    auto s = L::info();
    s << "named" << 1;
    s << [] { return std::string("callable-lvalue"); };
}

void use_all()
{
    use_logger<log_mt>();
    use_logger<log_err_mt>();
    use_logger<log_seq>();
    use_logger<log_plain>();
    use_logger<log_plain_err>();
    use_logger<log_omp>();
    f_sev<record>::set_severity(nitro::log::severity_level::info);
    (void)nitro::log::severity_from_string("info", nitro::log::severity_level::trace);
}

// one runtime threshold per (record type, index): three filters that differ in one template argument each
using record_b = nitro::log::record<nitro::log::message_attribute, nitro::log::severity_attribute>;
void thresholds_are_independent()
{
    nitro::log::filter::severity_filter<record, 0>::set_severity(nitro::log::severity_level::info);
    nitro::log::filter::severity_filter<record_b, 0>::set_severity(nitro::log::severity_level::warn);
    nitro::log::filter::severity_filter<record, 1>::set_severity(nitro::log::severity_level::error);
    (void)nitro::log::filter::severity_filter<record, 0>::min_severity();
    (void)nitro::log::filter::severity_filter<record_b, 0>::min_severity();
    (void)nitro::log::filter::severity_filter<record, 1>::min_severity();
}

// record layouts with only one of the two attributes the statement sets itself (R10.5): severity without tag, tag without severity
using ts_attr = nitro::log::timestamp_clock_attribute<std::chrono::system_clock>;
using record_sev_only = nitro::log::record<nitro::log::message_attribute, nitro::log::severity_attribute, ts_attr>;
// (the layout with a tag but no severity is a must-compile cell of tl_C10.cpp: m8)
using log_sev_only = nitro::log::logger<record_sev_only, formatter, nitro::log::sink::Null, f_sev>;
void attribute_layouts()
{
    log_sev_only::info() << "severity, no tag";
}
} // namespace vwit

// ---------------------------------------------------------------- lazy-message probes (R05.11)
// function objects a user may stream: the call operator is not const (it caches / counts), and the type is printable as well. Whether the
// statement evaluates them lazily - calls them, once, only when the record is wanted - is decided by which operator<< overload is selected.
namespace vwit
{
struct counting_report
{
    int calls = 0;
    std::string operator()()
    {
        ++calls;
        return "report";
    }
};
inline std::ostream& operator<<(std::ostream& s, const counting_report&)
{
    return s << "<counting_report>";
}
void lazy_probes()
{
    counting_report named;
    log_plain::warn() << counting_report{};
    log_plain::warn() << named;
    auto st = log_plain::warn();
    st << counting_report{};
    st << named;
}
} // namespace vwit

