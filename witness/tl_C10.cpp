// Type-level witness for C10/C05: the compile-time gate. Compiled once per minimum with
//   -DNITRO_LOG_MIN_SEVERITY=<name> -DVERIF_MIN_IDX=<0..5>
// The expected cell value is computed from the *documented* order trace<debug<info<warn<error<fatal given by
// VERIF_MIN_IDX and the row index below - not from the enum, so a reordered enum or a changed gate is caught.
#include <chrono>
#include <string>
#include <type_traits>

#include <nitro/log/attribute/message.hpp>
#include <nitro/log/attribute/severity.hpp>
#include <nitro/log/attribute/tag.hpp>
#include <nitro/log/attribute/timestamp.hpp>
#include <nitro/log/filter/severity_filter.hpp>
#include <nitro/log/log.hpp>
#include <nitro/log/sink/null.hpp>

#ifndef VERIF_MIN_IDX
#error "VERIF_MIN_IDX must be defined"
#endif

namespace
{
using record = nitro::log::record<nitro::log::tag_attribute, nitro::log::message_attribute, nitro::log::severity_attribute,
                                  nitro::log::timestamp_clock_attribute<std::chrono::system_clock>>;
template <typename R>
struct fmt_t
{
    std::string format(R& r) { return r.message(); }
};
template <typename R>
using flt = nitro::log::filter::severity_filter<R>;
struct sink_t
{
    void sink(nitro::log::severity_level, const std::string&) {}
};
using L = nitro::log::logger<record, fmt_t, sink_t, flt>;
using nitro::log::severity_level;
using nitro::log::detail::null_stream;
template <severity_level S>
using smart = nitro::log::detail::smart_stream<record, fmt_t, sink_t, flt, S>;

// the filter judges the STATEMENT's severity: the record receives it whenever it has a severity attribute, wherever that
// attribute stands in the record's attribute list (has_attribute rests on the pack-membership trait)
using nitro::meta::is_variadic_member;
static_assert(is_variadic_member<int, int>::value, "[C10 a1] pack membership: only element");
static_assert(is_variadic_member<int, int, char, long>::value, "[C10 a2] pack membership: first element");
static_assert(is_variadic_member<int, char, int, long>::value, "[C10 a3] pack membership: middle element");
static_assert(is_variadic_member<int, char, long, int>::value, "[C10 a4] pack membership: LAST element");
static_assert(!is_variadic_member<int, char, long>::value, "[C10 a5] pack membership: absent");
static_assert(!is_variadic_member<int>::value, "[C10 a6] pack membership: empty pack");
using record_sev_last = nitro::log::record<nitro::log::message_attribute, nitro::log::severity_attribute>;
using record_sev_first = nitro::log::record<nitro::log::severity_attribute, nitro::log::message_attribute>;
using record_no_sev = nitro::log::record<nitro::log::message_attribute>;
static_assert(nitro::log::detail::has_attribute<nitro::log::severity_attribute, record_sev_last>::value, "[C10 a7] a record whose LAST attribute is the severity has a severity (set_severity writes it, the filter reads it)");
static_assert(nitro::log::detail::has_attribute<nitro::log::severity_attribute, record_sev_first>::value, "[C10 a8] a record whose first attribute is the severity has a severity");
static_assert(!nitro::log::detail::has_attribute<nitro::log::severity_attribute, record_no_sev>::value, "[C10 a9] a record without severity attribute has none");
static_assert(nitro::log::detail::has_attribute<nitro::log::severity_attribute, record>::value, "[C10 a10] the witness record has a severity");

// documented order (5 asserts)
static_assert(severity_level::trace < severity_level::debug, "[C10 o1] trace < debug");
static_assert(severity_level::debug < severity_level::info, "[C10 o2] debug < info");
static_assert(severity_level::info < severity_level::warn, "[C10 o3] info < warn");
static_assert(severity_level::warn < severity_level::error, "[C10 o4] warn < error");
static_assert(severity_level::error < severity_level::fatal, "[C10 o5] error < fatal");

#define CELL(fn, idx, tagd, tage)                                                                                                  \
    static_assert(std::is_same<decltype(L::fn()), null_stream>::value == ((idx) < VERIF_MIN_IDX), tagd);                        \
    static_assert(std::is_same<decltype(L::fn()), smart<severity_level::fn>>::value == ((idx) >= VERIF_MIN_IDX), tage);

CELL(trace, 0, "[C10 w1] trace: discarding stream iff below the minimum", "[C10 w2] trace: emitting stream of severity trace iff at/above the minimum")
CELL(debug, 1, "[C10 w3] debug: discarding stream iff below the minimum", "[C10 w4] debug: emitting stream of severity debug iff at/above the minimum")
CELL(info, 2, "[C10 w5] info: discarding stream iff below the minimum", "[C10 w6] info: emitting stream of severity info iff at/above the minimum")
CELL(warn, 3, "[C10 w7] warn: discarding stream iff below the minimum", "[C10 w8] warn: emitting stream of severity warn iff at/above the minimum")
CELL(error, 4, "[C10 w9] error: discarding stream iff below the minimum", "[C10 w10] error: emitting stream of severity error iff at/above the minimum")
CELL(fatal, 5, "[C10 w11] fatal: discarding stream iff below the minimum", "[C10 w12] fatal: emitting stream of severity fatal iff at/above the minimum")

std::string lazy_fn() { return "x"; }

// must-compile: exactly one operator<< overload is viable for callables and for plain values, on temporaries and named streams
void uses()
{
    L::fatal() << "text" << 1 << 2.5; // [C10 m1] plain values on a temporary stream
    L::fatal() << [] { return std::string("lazy"); }; // [C10 m2] callable on a temporary stream (no ambiguity with the value overload)
    L::fatal() << lazy_fn; // [C10 m3] function on a temporary stream
    auto s = L::fatal();
    s << "named" << 1; // [C10 m4] plain values on a named stream
    s << [] { return std::string("lazy"); }; // [C10 m5] callable on a named stream
    L::trace() << "t" << [] { return std::string("lazy"); }; // [C10 m6] lowest severity, whatever the minimum
    auto t = L::trace();
    t << 1 << lazy_fn; // [C10 m7] lowest severity named stream
}
} // namespace
