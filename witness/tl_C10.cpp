// Type-level witness for C10/C05: the compile-time gate. Compiled once per minimum with
//   -DNITRO_LOG_MIN_SEVERITY=<name> -DVERIF_MIN_IDX=<0..5>
// The expected cell value is computed from the *documented* order trace<debug<info<warn<error<fatal given by
// VERIF_MIN_IDX and the row index below - not from the enum, so a reordered enum or a changed gate is caught.
#include <chrono>
#include <string>
#include <type_traits>

#include <nitro/log/attribute/message.hpp>
#include <nitro/log/attribute/severity.hpp>
#include <nitro/log/attribute/tag.hpp>
#include <nitro/log/attribute/timestamp.hpp>
#include <nitro/log/filter/null_filter.hpp>
#include <nitro/log/filter/severity_filter.hpp>
#include <nitro/log/log.hpp>
#include <nitro/log/sink/null.hpp>
#include <nitro/log/sink/sequence.hpp>
#include <nitro/log/sink/stderr.hpp>
#include <nitro/log/sink/stderr_mt.hpp>
#include <nitro/log/sink/stdout.hpp>
#include <nitro/log/sink/stdout_mt.hpp>

#ifndef VERIF_MIN_IDX
#error "VERIF_MIN_IDX must be defined"
#endif

namespace
{
using record = nitro::log::record<nitro::log::tag_attribute, nitro::log::message_attribute, nitro::log::severity_attribute,
                                  nitro::log::timestamp_clock_attribute<std::chrono::system_clock>>;
template <typename R>
struct fmt_t
{
    std::string format(R& r) { return r.message(); }
};
template <typename R>
using flt = nitro::log::filter::severity_filter<R>;
struct sink_t
{
    void sink(nitro::log::severity_level, const std::string&) {}
};
using L = nitro::log::logger<record, fmt_t, sink_t, flt>;
using nitro::log::severity_level;
using nitro::log::detail::null_stream;
template <severity_level S>
using smart = nitro::log::detail::smart_stream<record, fmt_t, sink_t, flt, S>;

// the filter judges the STATEMENT's severity: the record receives it whenever it has a severity attribute, wherever that
// attribute stands in the record's attribute list (has_attribute rests on the pack-membership trait)
using nitro::meta::is_variadic_member;
static_assert(is_variadic_member<int, int>::value, "[C10 a1] pack membership: only element");
static_assert(is_variadic_member<int, int, char, long>::value, "[C10 a2] pack membership: first element");
static_assert(is_variadic_member<int, char, int, long>::value, "[C10 a3] pack membership: middle element");
static_assert(is_variadic_member<int, char, long, int>::value, "[C10 a4] pack membership: LAST element");
static_assert(!is_variadic_member<int, char, long>::value, "[C10 a5] pack membership: absent");
static_assert(!is_variadic_member<int>::value, "[C10 a6] pack membership: empty pack");
using record_sev_last = nitro::log::record<nitro::log::message_attribute, nitro::log::severity_attribute>;
using record_sev_first = nitro::log::record<nitro::log::severity_attribute, nitro::log::message_attribute>;
using record_no_sev = nitro::log::record<nitro::log::message_attribute>;
static_assert(nitro::log::detail::has_attribute<nitro::log::severity_attribute, record_sev_last>::value, "[C10 a7] a record whose LAST attribute is the severity has a severity (set_severity writes it, the filter reads it)");
static_assert(nitro::log::detail::has_attribute<nitro::log::severity_attribute, record_sev_first>::value, "[C10 a8] a record whose first attribute is the severity has a severity");
static_assert(!nitro::log::detail::has_attribute<nitro::log::severity_attribute, record_no_sev>::value, "[C10 a9] a record without severity attribute has none");
static_assert(nitro::log::detail::has_attribute<nitro::log::severity_attribute, record>::value, "[C10 a10] the witness record has a severity");

// documented order (5 asserts)
static_assert(severity_level::trace < severity_level::debug, "[C10 o1] trace < debug");
static_assert(severity_level::debug < severity_level::info, "[C10 o2] debug < info");
static_assert(severity_level::info < severity_level::warn, "[C10 o3] info < warn");
static_assert(severity_level::warn < severity_level::error, "[C10 o4] warn < error");
static_assert(severity_level::error < severity_level::fatal, "[C10 o5] error < fatal");

#define CELL(fn, idx, tagd, tage)                                                                                                  \
    static_assert(std::is_same<decltype(L::fn()), null_stream>::value == ((idx) < VERIF_MIN_IDX), tagd);                        \
    static_assert(std::is_same<decltype(L::fn()), smart<severity_level::fn>>::value == ((idx) >= VERIF_MIN_IDX), tage);

CELL(trace, 0, "[C10 w1] trace: discarding stream iff below the minimum", "[C10 w2] trace: emitting stream of severity trace iff at/above the minimum")
CELL(debug, 1, "[C10 w3] debug: discarding stream iff below the minimum", "[C10 w4] debug: emitting stream of severity debug iff at/above the minimum")
CELL(info, 2, "[C10 w5] info: discarding stream iff below the minimum", "[C10 w6] info: emitting stream of severity info iff at/above the minimum")
CELL(warn, 3, "[C10 w7] warn: discarding stream iff below the minimum", "[C10 w8] warn: emitting stream of severity warn iff at/above the minimum")
CELL(error, 4, "[C10 w9] error: discarding stream iff below the minimum", "[C10 w10] error: emitting stream of severity error iff at/above the minimum")
CELL(fatal, 5, "[C10 w11] fatal: discarding stream iff below the minimum", "[C10 w12] fatal: emitting stream of severity fatal iff at/above the minimum")

// the gate looks at the severity and the compile-time minimum only: the same cells for every sink the library ships (a statement is
// not compiled out - or kept - because of where its record would go)
template <typename Sink>
using LS = nitro::log::logger<record, fmt_t, Sink, flt>;
template <typename Sink, severity_level S>
using smart_s = nitro::log::detail::smart_stream<record, fmt_t, Sink, flt, S>;
#define SINKCELLS(Sink, t1, t2, t3, t4, t5, t6)                                                                                  \
    static_assert(std::is_same<decltype(LS<Sink>::trace()), null_stream>::value == (0 < VERIF_MIN_IDX), t1);                     \
    static_assert(std::is_same<decltype(LS<Sink>::trace()), smart_s<Sink, severity_level::trace>>::value == (0 >= VERIF_MIN_IDX), t2); \
    static_assert(std::is_same<decltype(LS<Sink>::info()), null_stream>::value == (2 < VERIF_MIN_IDX), t3);                      \
    static_assert(std::is_same<decltype(LS<Sink>::info()), smart_s<Sink, severity_level::info>>::value == (2 >= VERIF_MIN_IDX), t4);   \
    static_assert(std::is_same<decltype(LS<Sink>::fatal()), null_stream>::value == (5 < VERIF_MIN_IDX), t5);                     \
    static_assert(std::is_same<decltype(LS<Sink>::fatal()), smart_s<Sink, severity_level::fatal>>::value == (5 >= VERIF_MIN_IDX), t6);
using seq_sink = nitro::log::sink::sequence<nitro::log::sink::Null, nitro::log::sink::StdOut>;
SINKCELLS(nitro::log::sink::Null, "[C10 w13] sink Null, trace: discarding iff below the minimum", "[C10 w14] sink Null, trace: emitting iff at/above the minimum", "[C10 w15] sink Null, info: discarding iff below the minimum",
          "[C10 w16] sink Null, info: emitting iff at/above the minimum", "[C10 w17] sink Null, fatal: discarding iff below the minimum", "[C10 w18] sink Null, fatal: emitting iff at/above the minimum")
SINKCELLS(nitro::log::sink::StdOut, "[C10 w19] sink StdOut, trace: discarding iff below the minimum", "[C10 w20] sink StdOut, trace: emitting iff at/above the minimum", "[C10 w21] sink StdOut, info: discarding iff below the minimum",
          "[C10 w22] sink StdOut, info: emitting iff at/above the minimum", "[C10 w23] sink StdOut, fatal: discarding iff below the minimum", "[C10 w24] sink StdOut, fatal: emitting iff at/above the minimum")
SINKCELLS(nitro::log::sink::StdErr, "[C10 w25] sink StdErr, trace: discarding iff below the minimum", "[C10 w26] sink StdErr, trace: emitting iff at/above the minimum", "[C10 w27] sink StdErr, info: discarding iff below the minimum",
          "[C10 w28] sink StdErr, info: emitting iff at/above the minimum", "[C10 w29] sink StdErr, fatal: discarding iff below the minimum", "[C10 w30] sink StdErr, fatal: emitting iff at/above the minimum")
SINKCELLS(nitro::log::sink::stdout_mt, "[C10 w31] sink stdout_mt, trace: discarding iff below the minimum", "[C10 w32] sink stdout_mt, trace: emitting iff at/above the minimum", "[C10 w33] sink stdout_mt, info: discarding iff below the minimum",
          "[C10 w34] sink stdout_mt, info: emitting iff at/above the minimum", "[C10 w35] sink stdout_mt, fatal: discarding iff below the minimum", "[C10 w36] sink stdout_mt, fatal: emitting iff at/above the minimum")
SINKCELLS(nitro::log::sink::StdErrThreaded, "[C10 w37] sink StdErrThreaded, trace: discarding iff below the minimum", "[C10 w38] sink StdErrThreaded, trace: emitting iff at/above the minimum", "[C10 w39] sink StdErrThreaded, info: discarding iff below the minimum",
          "[C10 w40] sink StdErrThreaded, info: emitting iff at/above the minimum", "[C10 w41] sink StdErrThreaded, fatal: discarding iff below the minimum", "[C10 w42] sink StdErrThreaded, fatal: emitting iff at/above the minimum")
SINKCELLS(seq_sink, "[C10 w43] sink sequence<Null, StdOut>, trace: discarding iff below the minimum", "[C10 w44] sink sequence<Null, StdOut>, trace: emitting iff at/above the minimum", "[C10 w45] sink sequence<Null, StdOut>, info: discarding iff below the minimum",
          "[C10 w46] sink sequence<Null, StdOut>, info: emitting iff at/above the minimum", "[C10 w47] sink sequence<Null, StdOut>, fatal: discarding iff below the minimum", "[C10 w48] sink sequence<Null, StdOut>, fatal: emitting iff at/above the minimum")

std::string lazy_fn() { return "x"; }

// must-compile: exactly one operator<< overload is viable for callables and for plain values, on temporaries and named streams
void uses()
{
    L::fatal() << "text" << 1 << 2.5; // [C10 m1] plain values on a temporary stream
    L::fatal() << [] { return std::string("lazy"); }; // [C10 m2] callable on a temporary stream (no ambiguity with the value overload)
    L::fatal() << lazy_fn; // [C10 m3] function on a temporary stream
    auto s = L::fatal();
    s << "named" << 1; // [C10 m4] plain values on a named stream
    s << [] { return std::string("lazy"); }; // [C10 m5] callable on a named stream
    L::trace() << "t" << [] { return std::string("lazy"); }; // [C10 m6] lowest severity, whatever the minimum
    auto t = L::trace();
    t << 1 << lazy_fn; // [C10 m7] lowest severity named stream
}

// record layouts with only one of the attributes a statement sets itself: both are valid records (a timestamp is all the logger asks for)
using ts_attr = nitro::log::timestamp_clock_attribute<std::chrono::system_clock>;
using record_tag_only = nitro::log::record<nitro::log::message_attribute, ts_attr, nitro::log::tag_attribute>;
using record_sev_only = nitro::log::record<nitro::log::message_attribute, nitro::log::severity_attribute, ts_attr>;
template <typename R>
using flt_null = nitro::log::filter::null_filter<R>;
void layouts()
{
    nitro::log::logger<record_tag_only, fmt_t, sink_t, flt_null>::fatal("tag") << "x"; // [C10 m8] a record with a tag and no severity can be logged
    nitro::log::logger<record_sev_only, fmt_t, sink_t, flt>::fatal() << "x"; // [C10 m9] a record with a severity and no tag can be logged
}
} // namespace
