// Type-level witness for C20 (enumerate / reverse): every (container kind x value category) cell is well-formed; lvalue
// ranges alias the original elements (a *type* fact); rvalue ranges are moved into the adaptor object. Only type-checked.
#include <array>
#include <list>
#include <map>
#include <memory>
#include <iterator>
#include <string>
#include <type_traits>
#include <vector>
#include <nitro/lang/enumerate.hpp>
#include <nitro/lang/fixed_vector.hpp>
#include <nitro/lang/reverse.hpp>

namespace
{
using nitro::lang::enumerate;
using nitro::lang::reverse;
template <typename R>
using elem_ref = decltype(*std::declval<R&>().begin());
template <typename R>
using enum_value = decltype((*std::declval<R&>().begin()).value());

std::vector<int> vec;
const std::vector<int> cvec;
std::array<int, 3> arr;
std::list<int> lst;
std::map<int, int> mp;
nitro::lang::fixed_vector<int> fv(3);
int raw[3];
const int craw[3] = { 1, 2, 3 };

// enumerate: lvalue -> value() is T&, const lvalue -> const T&
static_assert(std::is_same<enum_value<decltype(enumerate(vec))>, int&>::value, "[C20 w1] enumerate(vector&): value() aliases the element (int&)");
static_assert(std::is_same<enum_value<decltype(enumerate(cvec))>, const int&>::value, "[C20 w2] enumerate(const vector&): value() is const int&");
static_assert(std::is_same<enum_value<decltype(enumerate(arr))>, int&>::value, "[C20 w3] enumerate(array&): int&");
static_assert(std::is_same<enum_value<decltype(enumerate(lst))>, int&>::value, "[C20 w4] enumerate(list&): int&");
static_assert(std::is_same<enum_value<decltype(enumerate(mp))>, std::pair<const int, int>&>::value, "[C20 w5] enumerate(map&): pair<const K, V>&");
static_assert(std::is_same<enum_value<decltype(enumerate(fv))>, int&>::value, "[C20 w6] enumerate(fixed_vector&): int&");
static_assert(std::is_same<enum_value<decltype(enumerate(raw))>, int&>::value, "[C20 w7] enumerate(int(&)[3]): int&");
static_assert(std::is_same<enum_value<decltype(enumerate(craw))>, const int&>::value, "[C20 w8] enumerate(const int(&)[3]): const int&");
static_assert(std::is_same<decltype((*std::declval<decltype(enumerate(vec))&>().begin()).index()), std::size_t>::value, "[C20 w9] index() is a size_t");
// enumerate: rvalue -> the adaptor owns the container (member of object type)
static_assert(std::is_same<decltype(enumerate(std::vector<int>{})), nitro::lang::detail::enumerate<std::vector<int>>>::value, "[C20 w10] enumerate(vector&&) returns the owning adaptor");
static_assert(std::is_same<decltype(enumerate(std::list<int>{})), nitro::lang::detail::enumerate<std::list<int>>>::value, "[C20 w11] enumerate(list&&) returns the owning adaptor");
static_assert(std::is_same<decltype(enumerate({ 1, 2, 3 })), nitro::lang::detail::enumerate<std::vector<int>>>::value, "[C20 w12] enumerate({..}) owns a vector copy of the list");
static_assert(!std::is_reference<decltype(enumerate(std::vector<int>{}))>::value, "[C20 w13] the owning adaptor is returned by value");

// reverse: lvalue -> *it is T&, const -> const T&
static_assert(std::is_same<elem_ref<decltype(reverse(vec))>, int&>::value, "[C20 w14] reverse(vector&): int&");
static_assert(std::is_same<elem_ref<decltype(reverse(cvec))>, const int&>::value, "[C20 w15] reverse(const vector&): const int&");
static_assert(std::is_same<elem_ref<decltype(reverse(arr))>, int&>::value, "[C20 w16] reverse(array&): int&");
static_assert(std::is_same<elem_ref<decltype(reverse(lst))>, int&>::value, "[C20 w17] reverse(list&): int&");
static_assert(std::is_same<elem_ref<decltype(reverse(mp))>, std::pair<const int, int>&>::value, "[C20 w18] reverse(map&): pair&");
static_assert(std::is_same<elem_ref<decltype(reverse(fv))>, int&>::value, "[C20 w19] reverse(fixed_vector&): int&");
static_assert(std::is_same<decltype(reverse(vec).begin()), std::vector<int>::reverse_iterator>::value, "[C20 w20] reverse(vector&) iterates with the container's reverse_iterator");
static_assert(std::is_same<decltype(reverse(fv).begin()), std::reverse_iterator<int*>>::value, "[C20 w21] reverse(fixed_vector&) iterates with a reverse_iterator (a plain pointer would walk forward)");
static_assert(std::is_same<decltype(reverse(std::vector<int>{})), nitro::lang::detail::reverse<std::vector<int>>>::value, "[C20 w22] reverse(vector&&) returns the owning adaptor");
static_assert(std::is_same<decltype(reverse(std::list<int>{})), nitro::lang::detail::reverse<std::list<int>>>::value, "[C20 w23] reverse(list&&) returns the owning adaptor");
static_assert(std::is_same<decltype(reverse({ 1, 2, 3 })), nitro::lang::detail::reverse<std::vector<int>>>::value, "[C20 w24] reverse({..}) owns a vector copy of the list");
static_assert(std::is_same<decltype(reverse(raw)), nitro::lang::detail::reverse<std::vector<std::reference_wrapper<int>>>>::value, "[C20 w25] reverse(int(&)[3]) owns reference_wrappers to the elements");
static_assert(std::is_same<decltype(reverse(std::vector<int>{}).begin()), std::vector<int>::const_reverse_iterator>::value, "[C20 w26] the owning reverse adaptor iterates crbegin()..crend()");

// const-qualified temporaries (the result of `const C make();`, or a template instantiated with a const container) are owned too
static_assert(std::is_same<decltype(reverse(std::declval<const std::vector<int>>())), nitro::lang::detail::reverse<const std::vector<int>>>::value, "[C20 w27] reverse(const vector&&) returns the owning adaptor (a proxy into the dead temporary would dangle)");
static_assert(std::is_same<decltype(enumerate(std::declval<const std::vector<int>>())), nitro::lang::detail::enumerate<const std::vector<int>>>::value, "[C20 w28] enumerate(const vector&&) returns the owning adaptor");
static_assert(std::is_same<decltype(reverse(std::declval<const std::list<int>>())), nitro::lang::detail::reverse<const std::list<int>>>::value, "[C20 w29] reverse(const list&&) returns the owning adaptor");

// a const element proxy (for (const auto& e : enumerate(c))) still aliases the element
template <typename R>
using const_proxy_value = decltype(std::declval<const decltype(*std::declval<R&>().begin())&>().value());
std::vector<std::string> svec;
static_assert(std::is_same<const_proxy_value<decltype(enumerate(svec))>, std::string&>::value, "[C20 w30] value() on a const proxy of enumerate(vector<string>&) is string& (a copy would swallow writes)");
static_assert(std::is_same<const_proxy_value<decltype(enumerate(vec))>, int&>::value, "[C20 w31] value() on a const proxy of enumerate(vector<int>&) is int&");
// dereferencing through a CONST iterator (const auto it = e.begin(); helpers taking const It&) aliases the element as well
template <typename R>
using const_iter_value = decltype((*std::declval<const decltype(std::declval<R&>().begin())&>()).value());
static_assert(std::is_same<const_iter_value<decltype(enumerate(svec))>, std::string&>::value, "[C20 w34] *const_iterator of enumerate(vector<string>&): value() is string& (a copying proxy would swallow writes)");
static_assert(std::is_same<const_iter_value<decltype(enumerate(vec))>, int&>::value, "[C20 w35] *const_iterator of enumerate(vector<int>&): value() is int&");
static_assert(std::is_same<const_iter_value<decltype(enumerate(mp))>, std::pair<const int, int>&>::value, "[C20 w36] *const_iterator of enumerate(map&): value() is pair&");
static_assert(std::is_same<const_iter_value<decltype(enumerate(cvec))>, const int&>::value, "[C20 w37] *const_iterator of enumerate(const vector&): value() is const int&");
// whatever further call forms exist (a start offset, a step): handing them a TEMPORARY range yields the owning adaptor, or the form
// is not available for temporaries at all - never a proxy into a range that dies before the loop body runs
template <typename R, typename = void>
struct enumerate_with_offset { using type = void; };
template <typename R>
struct enumerate_with_offset<R, decltype(void(enumerate(std::declval<R>(), std::size_t{})))> { using type = decltype(enumerate(std::declval<R>(), std::size_t{})); };
template <typename R, typename = void>
struct reverse_with_offset { using type = void; };
template <typename R>
struct reverse_with_offset<R, decltype(void(reverse(std::declval<R>(), std::size_t{})))> { using type = decltype(reverse(std::declval<R>(), std::size_t{})); };
static_assert(std::is_void<enumerate_with_offset<std::vector<int>>::type>::value || std::is_same<enumerate_with_offset<std::vector<int>>::type, nitro::lang::detail::enumerate<std::vector<int>>>::value,
              "[C20 w38] enumerate(temporary, offset), if it exists, returns the owning adaptor (a proxy would dangle)");
static_assert(std::is_void<enumerate_with_offset<const std::list<int>>::type>::value || std::is_same<enumerate_with_offset<const std::list<int>>::type, nitro::lang::detail::enumerate<const std::list<int>>>::value,
              "[C20 w39] enumerate(const temporary, offset), if it exists, returns the owning adaptor");
static_assert(std::is_void<reverse_with_offset<std::vector<int>>::type>::value || std::is_same<reverse_with_offset<std::vector<int>>::type, nitro::lang::detail::reverse<std::vector<int>>>::value,
              "[C20 w40] reverse(temporary, offset), if it exists, returns the owning adaptor");
// built-in arrays of every element type take the array overload (elements are reference_wrappers to the array's own elements)
const char cchars[4] = { 'a', 0, 'b', 0 };
char chars[3] = { 'x', 'y', 'z' };
static_assert(std::is_same<decltype(reverse(cchars)), nitro::lang::detail::reverse<std::vector<std::reference_wrapper<const char>>>>::value, "[C20 w32] reverse(const char(&)[N]) visits all N elements of the array (not a C string up to the first NUL)");
static_assert(std::is_same<decltype(reverse(chars)), nitro::lang::detail::reverse<std::vector<std::reference_wrapper<char>>>>::value, "[C20 w33] reverse(char(&)[N]) is the array overload");

void uses()
{
    for (auto e : enumerate(std::array<int, 2>{ { 1, 2 } })) { (void)e.index(); } // [C20 m1] enumerate(array&&)
    for (auto e : enumerate(std::map<int, int>{})) { (void)e.index(); } // [C20 m2] enumerate(map&&)
    for (auto& x : reverse(std::array<int, 2>{ { 1, 2 } })) { (void)x; } // [C20 m3] reverse(array&&)
    for (auto& x : reverse(std::map<int, int>{})) { (void)x; } // [C20 m4] reverse(map&&)
    for (auto& x : reverse(craw)) { (void)x; } // [C20 m5] reverse(const int(&)[3])
    for (auto e : enumerate(nitro::lang::fixed_vector<int>(2))) { (void)e.index(); } // [C20 m6] enumerate(fixed_vector&&)
}
} // namespace
