// Witness unit (facts): forces the implicit special members of the option-parser classes to be declared so that the
// extractor can report whether they are implicit / deleted / user-provided. Never executed.
#include <type_traits>
#include <nitro/options/parser.hpp>

namespace vwit
{
constexpr bool parser_mc = std::is_move_constructible<nitro::options::parser>::value;
constexpr bool parser_ma = std::is_move_assignable<nitro::options::parser>::value;
constexpr bool group_mc = std::is_move_constructible<nitro::options::group>::value;
constexpr bool group_ma = std::is_move_assignable<nitro::options::group>::value;
constexpr bool parser_cc = std::is_copy_constructible<nitro::options::parser>::value;
} // namespace vwit

namespace vwit
{
// instantiate the CRTP setters for all three kinds and the typed accessors
void use_declarations()
{
    nitro::options::parser p("app", "about");
    p.option("o", "d").short_name("o").env("O").metavar("M").default_value("x").optional();
    p.multi_option("m", "d").short_name("m").env("M").metavar("M").default_value({ "x" }).optional();
    p.toggle("t", "d").short_name("t").env("T").metavar("M").default_value(true).allow_reverse();
    auto& g = p.group("g", "d");
    g.option("go");
    const char* argv[] = { "prog" };
    auto a = p.parse(1, argv);
    (void)a.as<int>("o");
    (void)a.as<std::string>("o");
    (void)a.as<int>("m", 0);
    (void)a.get(-1);
    p.usage();
}
} // namespace vwit
