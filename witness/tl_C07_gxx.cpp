// Type-level witness for C07 / C06, compiled with g++ (the compiler the library is built with): which constructor do the assignment operators of
// fixed_vector select for an element type that is constructible from anything? clang treats `fixed_vector tmp{ v }` as a copy (CWG 1467), g++ 12 prefers
// the initializer_list<value_type> constructor - the two front ends disagree, so the facts (clang) cannot decide it for the build's compiler.
// `probe` may be constructed from anything EXCEPT a fixed_vector: if overload resolution ever converts the whole source container into one element, the
// static_assert inside the converting constructor fires.
#include <type_traits>
#include <utility>
#include <nitro/lang/fixed_vector.hpp>

namespace
{
template <typename T>
struct is_fixed_vector : std::false_type
{
};
template <typename T>
struct is_fixed_vector<nitro::lang::fixed_vector<T>> : std::true_type
{
};
struct probe
{
    probe() = default;
    probe(const probe&) = default;
    probe(probe&&) = default;
    probe& operator=(const probe&) = default;
    probe& operator=(probe&&) = default;
    template <typename U, typename = typename std::enable_if<!std::is_same<typename std::decay<U>::type, probe>::value>::type>
    probe(U&&)
    {
        static_assert(!is_fixed_vector<typename std::decay<U>::type>::value, "[C07 g1] an assignment operator of fixed_vector turned the whole source container into ONE element (braces selected the initializer_list constructor)");
        static_assert(!std::is_integral<typename std::decay<U>::type>::value, "[C07 g2] list assignment turned the list's size into an element (braces selected the initializer_list constructor)");
    }
};
void assignments(nitro::lang::fixed_vector<probe>& dst, const nitro::lang::fixed_vector<probe>& src)
{
    nitro::lang::fixed_vector<probe> other(2);
    dst = src;              // [C07 g3] copy assignment compiles for an element type constructible from anything
    dst = std::move(other); // [C07 g4] move assignment
    dst = { probe(), probe() }; // [C07 g5] list assignment
    nitro::lang::fixed_vector<probe> copy(src); // [C07 g6] copy construction
    nitro::lang::fixed_vector<probe> moved(std::move(copy)); // [C07 g7] move construction
}
} // namespace
