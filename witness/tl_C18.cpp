// Type-level witness for C18 (owning wrappers). Only type-checked, never run.
#include <functional>
#include <memory>
#include <string>
#include <type_traits>
#include <nitro/lang/optional.hpp>
#include <nitro/lang/quaint_ptr.hpp>

namespace
{
using nitro::lang::quaint_ptr;
using qbase = std::unique_ptr<void, std::function<void(void*)>>;

static_assert(!std::is_copy_constructible<quaint_ptr>::value, "[C18 w1] quaint_ptr must not be copy-constructible (two owners would destroy twice)");
static_assert(!std::is_copy_assignable<quaint_ptr>::value, "[C18 w2] quaint_ptr must not be copy-assignable");
static_assert(std::is_move_constructible<quaint_ptr>::value, "[C18 w3] quaint_ptr must be move-constructible");
static_assert(std::is_move_assignable<quaint_ptr>::value, "[C18 w4] quaint_ptr must be move-assignable");
static_assert(std::is_default_constructible<quaint_ptr>::value, "[C18 w5] quaint_ptr default-constructs (empty)");
static_assert(std::is_base_of<qbase, quaint_ptr>::value, "[C18 w6] recogniser: quaint_ptr is built on std::unique_ptr<void, std::function<void(void*)>>");
static_assert(!std::is_convertible<quaint_ptr*, qbase*>::value, "[C18 w7] the unique_ptr base of quaint_ptr is not publicly accessible (release() must stay unreachable)");

template <typename T, typename = void>
struct has_release : std::false_type {};
template <typename T>
struct has_release<T, decltype(void(std::declval<T&>().release()))> : std::true_type {};
static_assert(!has_release<quaint_ptr>::value, "[C18 w8] quaint_ptr must not expose release()");

using opt = nitro::lang::optional<std::string>;
static_assert(std::is_copy_constructible<opt>::value, "[C18 w9] optional is copyable");
static_assert(std::is_copy_assignable<opt>::value, "[C18 w10] optional is copy-assignable");
static_assert(std::is_same<decltype(std::declval<opt&>() = std::declval<const opt&>()), opt&>::value, "[C18 w11] optional copy assignment returns optional&");
static_assert(std::is_same<decltype(*std::declval<const opt&>()), const std::string&>::value, "[C18 w12] optional::operator* yields const T&");
static_assert(!std::is_convertible<opt, bool>::value, "[C18 w13] optional's bool conversion is explicit");
} // namespace
