// Type-level witness for C18 (owning wrappers). Only type-checked, never run.
#include <functional>
#include <memory>
#include <string>
#include <type_traits>
#include <nitro/lang/optional.hpp>
#include <nitro/lang/quaint_ptr.hpp>

namespace
{
using nitro::lang::quaint_ptr;
using qbase = std::unique_ptr<void, std::function<void(void*)>>;

static_assert(!std::is_copy_constructible<quaint_ptr>::value, "[C18 w1] quaint_ptr must not be copy-constructible (two owners would destroy twice)");
static_assert(!std::is_copy_assignable<quaint_ptr>::value, "[C18 w2] quaint_ptr must not be copy-assignable");
static_assert(std::is_move_constructible<quaint_ptr>::value, "[C18 w3] quaint_ptr must be move-constructible");
static_assert(std::is_move_assignable<quaint_ptr>::value, "[C18 w4] quaint_ptr must be move-assignable");
static_assert(std::is_default_constructible<quaint_ptr>::value, "[C18 w5] quaint_ptr default-constructs (empty)");
static_assert(std::is_base_of<qbase, quaint_ptr>::value, "[C18 w6] recogniser: quaint_ptr is built on std::unique_ptr<void, std::function<void(void*)>>");
static_assert(!std::is_convertible<quaint_ptr*, qbase*>::value, "[C18 w7] the unique_ptr base of quaint_ptr is not publicly accessible (release() must stay unreachable)");

template <typename T, typename = void>
struct has_release : std::false_type {};
template <typename T>
struct has_release<T, decltype(void(std::declval<T&>().release()))> : std::true_type {};
static_assert(!has_release<quaint_ptr>::value, "[C18 w8] quaint_ptr must not expose release()");
// re-seating with a raw pointer would keep the type-erased deleter of the OLD object's type: only the argument-less reset() is there
template <typename P, typename = void>
struct has_pointer_reset : std::false_type {};
template <typename P>
struct has_pointer_reset<P, decltype(void(std::declval<P&>().reset(std::declval<int*>())))> : std::true_type {};
template <typename P, typename = void>
struct has_plain_reset : std::false_type {};
template <typename P>
struct has_plain_reset<P, decltype(void(std::declval<P&>().reset()))> : std::true_type {};
static_assert(!has_pointer_reset<quaint_ptr>::value, "[C18 w14] quaint_ptr must not expose reset(pointer): the new object would be deleted as the old object's type");
static_assert(has_plain_reset<quaint_ptr>::value, "[C18 w15] quaint_ptr offers reset() without arguments");
template <typename P, typename = void>
struct has_swap_with_base : std::false_type {};
template <typename P>
struct has_swap_with_base<P, decltype(void(std::declval<P&>().swap(std::declval<qbase&>())))> : std::true_type {};
static_assert(!has_swap_with_base<quaint_ptr>::value, "[C18 w16] quaint_ptr must not expose the base's swap (pointer and deleter of unrelated owners would be exchanged unchecked)");

using opt = nitro::lang::optional<std::string>;
static_assert(std::is_copy_constructible<opt>::value, "[C18 w9] optional is copyable");
static_assert(std::is_copy_assignable<opt>::value, "[C18 w10] optional is copy-assignable");
static_assert(std::is_same<decltype(std::declval<opt&>() = std::declval<const opt&>()), opt&>::value, "[C18 w11] optional copy assignment returns optional&");
static_assert(std::is_same<decltype(*std::declval<const opt&>()), const std::string&>::value, "[C18 w12] optional::operator* yields const T&");
static_assert(!std::is_convertible<opt, bool>::value, "[C18 w13] optional's bool conversion is explicit");
} // namespace
