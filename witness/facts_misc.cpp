// Witness unit (facts): format / exceptions / dl / env / io headers with the instantiations the rules look at.
#include <string>
#include <vector>

#include <nitro/format.hpp>
#include <nitro/except/raise.hpp>
#include <nitro/dl/dl.hpp>
#include <nitro/env/get.hpp>
#include <nitro/env/hostname.hpp>
#include <nitro/env/process.hpp>
#include <nitro/lang/string.hpp>
#include <nitro/io/terminal.hpp>
#include <nitro/lang/catch.hpp>
#include <nitro/meta/callable.hpp>
#include <nitro/meta/variadic.hpp>

namespace vwit
{
void use_format()
{
    std::string a = nitro::format("{} and {}") % 1 % "two";
    std::string b = nitro::format(std::string("{}")).args(1.5).str();
    std::string c = nitro::format("{} {} {}").args(1, "x", 2.5);
    auto f = "{}"_nf;
    f % 3;
    std::stringstream s;
    s << f;
    (void)a; (void)b; (void)c;
}

void use_raise()
{
    try
    {
        nitro::raise("a", 1, std::string("b"));
    }
    catch (nitro::except::exception& e)
    {
        (void)e.what();
    }
}

void use_dl()
{
    nitro::dl::dl lib("libm.so.6");
    auto cosine = lib.load<double(double)>("cos");
    (void)cosine(1.0);
    nitro::dl::dl self(nitro::dl::self);
    auto copy = lib;
    (void)copy.get();
}

// the loader's mode bits as this platform defines them (R19.2 evaluates the second argument of dlopen against them)
const int rtld_lazy = RTLD_LAZY;
const int rtld_now = RTLD_NOW;
const int rtld_noload = RTLD_NOLOAD;
const int rtld_nodelete = RTLD_NODELETE;
int rtld_bits()
{
    return rtld_lazy + rtld_now + rtld_noload + rtld_nodelete;
}

void use_env()
{
    (void)nitro::env::get("HOME");
    (void)nitro::env::get("HOME", "dflt");
    (void)nitro::env::get("HOME", nitro::env::no_default);
}

void use_terminal()
{
    std::stringstream s;
    nitro::io::terminal::format_padded(s, "a b c", 4, 20);
}
} // namespace vwit
