// Type-level witness for C06 (fixed_vector stays inside its storage): the index and size types. Only type-checked.
// A bounds check can only refuse an index it can see: an index parameter narrower than std::size_t cuts the caller's index
// before any comparison - at(2^32 + 1) on a container of two elements would return element 1.
#include <cstddef>
#include <limits>
#include <string>
#include <type_traits>
#include <nitro/lang/fixed_vector.hpp>

namespace
{
using fv = nitro::lang::fixed_vector<int>;
using fs = nitro::lang::fixed_vector<std::string>;

static_assert(std::numeric_limits<fv::size_type>::max() >= std::numeric_limits<std::size_t>::max(), "[C06 w1] size_type holds every std::size_t (an index is never cut before it is compared with size())");
static_assert(!std::numeric_limits<fv::size_type>::is_signed && std::numeric_limits<fv::size_type>::is_integer, "[C06 w2] size_type is an unsigned integer");
static_assert(sizeof(decltype(std::declval<const fv&>().size())) >= sizeof(std::size_t), "[C06 w3] size() reports in a type as wide as std::size_t");
static_assert(sizeof(decltype(std::declval<const fv&>().capacity())) >= sizeof(std::size_t), "[C06 w4] capacity() reports in a type as wide as std::size_t");
static_assert(std::is_same<fv::size_type, fs::size_type>::value, "[C06 w5] the size type does not depend on the element type");
static_assert(std::is_same<decltype(std::declval<fv&>().at(std::declval<std::size_t>())), int&>::value, "[C06 w6] at(std::size_t) yields a reference to the element");
static_assert(std::is_same<decltype(std::declval<const fv&>().at(std::declval<std::size_t>())), const int&>::value, "[C06 w7] at(std::size_t) const yields a const reference");
} // namespace
