// Type-level witness for C10/C05: WHERE the compile-time minimum is read. The library documents (and its own logging test uses)
//     #undef NITRO_LOG_MIN_SEVERITY / #define NITRO_LOG_MIN_SEVERITY <level>   in front of   #include <nitro/log/log.hpp>
// Attribute, filter and sink headers may well stand in front of that define. The minimum in force for the unit's statements must be
// the one defined when log.hpp is included - a constant that captures the macro in a header included earlier (severity.hpp is pulled
// in by every attribute / filter / sink header) silently keeps the earlier value.
#include <chrono>
#include <string>
#include <type_traits>

#include <nitro/log/attribute/message.hpp>
#include <nitro/log/attribute/severity.hpp>
#include <nitro/log/attribute/tag.hpp>
#include <nitro/log/attribute/timestamp.hpp>
#include <nitro/log/filter/and_filter.hpp>
#include <nitro/log/filter/not_filter.hpp>
#include <nitro/log/filter/null_filter.hpp>
#include <nitro/log/filter/or_filter.hpp>
#include <nitro/log/filter/severity_filter.hpp>
#include <nitro/log/severity.hpp>
#include <nitro/log/sink/null.hpp>
#include <nitro/log/sink/sequence.hpp>
#include <nitro/log/sink/stderr.hpp>
#include <nitro/log/sink/stderr_mt.hpp>
#include <nitro/log/sink/stdout.hpp>
#include <nitro/log/sink/stdout_mt.hpp>

#undef NITRO_LOG_MIN_SEVERITY
#define NITRO_LOG_MIN_SEVERITY warn

#include <nitro/log/log.hpp>

namespace
{
using record = nitro::log::record<nitro::log::tag_attribute, nitro::log::message_attribute, nitro::log::severity_attribute,
                                  nitro::log::timestamp_clock_attribute<std::chrono::system_clock>>;
template <typename R>
struct fmt_t
{
    std::string format(R& r) { return r.message(); }
};
template <typename R>
using flt = nitro::log::filter::severity_filter<R>;
struct sink_t
{
    void sink(nitro::log::severity_level, const std::string&) {}
};
using L = nitro::log::logger<record, fmt_t, sink_t, flt>;
using nitro::log::detail::null_stream;

static_assert(std::is_same<decltype(L::trace()), null_stream>::value, "[C10 o1] minimum defined as warn just before log.hpp: trace() is compiled out");
static_assert(std::is_same<decltype(L::debug()), null_stream>::value, "[C10 o2] minimum defined as warn just before log.hpp: debug() is compiled out");
static_assert(std::is_same<decltype(L::info()), null_stream>::value, "[C10 o3] minimum defined as warn just before log.hpp: info() is compiled out");
static_assert(!std::is_same<decltype(L::warn()), null_stream>::value, "[C10 o4] minimum defined as warn just before log.hpp: warn() is live");
static_assert(!std::is_same<decltype(L::error()), null_stream>::value, "[C10 o5] minimum defined as warn just before log.hpp: error() is live");
static_assert(!std::is_same<decltype(L::fatal()), null_stream>::value, "[C10 o6] minimum defined as warn just before log.hpp: fatal() is live");
static_assert(std::is_same<decltype(L::info("tag")), null_stream>::value, "[C10 o7] tagged statements follow the same minimum");
} // namespace
