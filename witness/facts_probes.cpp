// Witness unit (facts): overload-resolution probes. Every function holds calls a user may write; the rules (rules/general12.py, PROBES)
// read from the resolved AST WHICH function overload resolution selected for them. Never executed.
#include <cstddef>
#include <ostream>
#include <string>
#include <nitro/options/parser.hpp>

namespace vprobe
{
// a value that converts to its text implicitly and prints something else for diagnostics (std::filesystem::path prints quoted,
// an endpoint / version class prints its fields)
struct text_like
{
    operator std::string() const
    {
        return "text";
    }
};
inline std::ostream& operator<<(std::ostream& s, const text_like&)
{
    return s << "text_like{...}";
}

// typed access to an element of a multi_option: the index is written as an int, an unsigned or a long by ordinary callers
void as_with_index(const nitro::options::arguments& a)
{
    (void)a.as<int>("n", 1);
    (void)a.as<unsigned>("n", 2u);
    (void)a.as<long>("n", 0L);
}

// a default given as an object that converts to std::string
void default_from_convertible(nitro::options::option& o, nitro::options::multi_option& m)
{
    o.default_value(text_like{});
    o.default_value("literal");
    m.default_value({ std::string("a"), std::string("b") });
}
} // namespace vprobe
