// Type-level witness for C05 (exactly-once ownership of a log record, sequence fan-out indices). Only type-checked.
#include <chrono>
#include <string>
#include <tuple>
#include <type_traits>

#include <nitro/lang/tuple_foreach.hpp>
#include <nitro/log/attribute/message.hpp>
#include <nitro/log/attribute/severity.hpp>
#include <nitro/log/attribute/tag.hpp>
#include <nitro/log/attribute/timestamp.hpp>
#include <nitro/log/filter/and_filter.hpp>
#include <nitro/log/filter/not_filter.hpp>
#include <nitro/log/filter/or_filter.hpp>
#include <nitro/log/filter/severity_filter.hpp>
#include <nitro/log/log.hpp>
#include <nitro/log/sink/sequence.hpp>

namespace
{
using record = nitro::log::record<nitro::log::tag_attribute, nitro::log::message_attribute, nitro::log::severity_attribute,
                                  nitro::log::timestamp_clock_attribute<std::chrono::system_clock>>;
template <typename R>
struct fmt_t
{
    std::string format(R& r) { return r.message(); }
};
template <typename R>
using flt = nitro::log::filter::severity_filter<R>;
struct sink_t
{
    void sink(nitro::log::severity_level, const std::string&) {}
};
using stream = nitro::log::detail::smart_stream<record, fmt_t, sink_t, flt, nitro::log::severity_level::info>;

static_assert(!std::is_copy_constructible<stream>::value, "[C05 w1] a log statement object is not copy-constructible (two owners would emit the record twice)");
static_assert(!std::is_copy_assignable<stream>::value, "[C05 w2] a log statement object is not copy-assignable");
static_assert(!std::is_move_assignable<stream>::value, "[C05 w3] a log statement object is not move-assignable (the overwritten record would be lost or emitted early)");
static_assert(std::is_move_constructible<stream>::value, "[C05 w4] ownership moves along the << chain");
static_assert(!std::is_default_constructible<stream>::value, "[C05 w5] a statement object always starts from a tag");

#ifdef VERIF_HAS_GEN_SEQ // the library's own index-sequence generator (absent when it uses std::index_sequence, which is trusted)
using nitro::lang::helper::gen_seq;
using nitro::lang::helper::seq;
static_assert(std::is_base_of<seq<>, gen_seq<0>>::value, "[C05 w6] gen_seq<0> is seq<>");
static_assert(std::is_base_of<seq<0>, gen_seq<1>>::value, "[C05 w7] gen_seq<1> is seq<0>");
static_assert(std::is_base_of<seq<0, 1>, gen_seq<2>>::value, "[C05 w8] gen_seq<2> is seq<0,1>");
static_assert(std::is_base_of<seq<0, 1, 2>, gen_seq<3>>::value, "[C05 w9] gen_seq<3> is seq<0,1,2>");
static_assert(std::is_base_of<seq<0, 1, 2, 3>, gen_seq<4>>::value, "[C05 w10] gen_seq<4> is seq<0,1,2,3>");
static_assert(std::is_base_of<seq<0, 1, 2, 3, 4>, gen_seq<5>>::value, "[C05 w11] gen_seq<5> is seq<0..4>");
static_assert(std::is_base_of<seq<0, 1, 2, 3, 4, 5>, gen_seq<6>>::value, "[C05 w12] gen_seq<6> is seq<0..5>");
static_assert(std::is_base_of<seq<0, 1, 2, 3, 4, 5, 6>, gen_seq<7>>::value, "[C05 w13] gen_seq<7> is seq<0..6>");
static_assert(std::is_base_of<seq<0, 1, 2, 3, 4, 5, 6, 7>, gen_seq<8>>::value, "[C05 w14] gen_seq<8> is seq<0..7>");
#endif

using F = nitro::log::filter::severity_filter<record>;
using nitro::log::filter::not_filter;
static_assert(std::is_base_of<F, not_filter<not_filter<F>>>::value, "[C05 w15] not_filter<not_filter<F>> is F");
static_assert(std::is_same<decltype(std::declval<const F&>().filter(std::declval<record&>())), bool>::value, "[C05 w16] filter() yields bool");
} // namespace
