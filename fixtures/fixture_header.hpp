// part of /verif/fixtures: a header that defines an internal-linkage mutex (one copy per translation unit) - R09.2 must fire
#pragma once
#include <mutex>
namespace vfix
{
static std::mutex internal_linkage_mutex;
}
