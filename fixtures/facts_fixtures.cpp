// Fixtures: tiny positive examples for the rules whose expected count on /repo is ZERO ("no manual memory in fixed_vector",
// "no dlclose outside the deleters", ...). They are extracted on every run; each zero-expected scanner must fire on its
// fixture, otherwise the check is analysis-broken (a rule that matches nothing passes vacuously forever).
// Nothing here is ever executed or linked.
#include <algorithm>
#include <atomic>
#include <cerrno>
#include <chrono>
#include <cstdlib>
#include <cstring>
#include <dlfcn.h>
#include <future>
#include <iostream>
#include <memory>
#include <mutex>
#include <numeric>
#include <regex>
#include <sstream>
#include <string>
#include <thread>
#include <vector>

#include "fixture_header.hpp"

namespace vfix
{
// R06.8: manual memory management inside a container
struct manual_memory
{
    int* p;
    void grow() { p = new int[4]; }
    void shrink() { delete[] p; }
    void shift(int* a, int* b, std::size_t n) { std::memmove(a, b, n); }
    void raw() { p = static_cast<int*>(std::malloc(16)); std::free(p); }
};

// R18.3: release() on an owning base
struct releasing : private std::unique_ptr<int>
{
    int* leak() { return this->release(); }
};

// R19.3: dlclose outside a handle deleter
inline void close_directly(void* handle) { dlclose(handle); }

// R09.1 / R09.3: stream written without / outside a lock; R09.2: automatic mutex, internal-linkage mutex
struct unlocked_sink
{
    void sink(const std::string& r) { std::cout << r << std::flush; }
    void narrowed(const std::string& r)
    {
        {
            std::lock_guard<std::mutex> l(internal_linkage_mutex);
            std::cout << r;
        }
        std::cout.flush();
    }
    void automatic(const std::string& r)
    {
        std::mutex m;
        std::lock_guard<std::mutex> l(m);
        std::cerr << r;
    }
};

// R09.4 / R05.8 / R20.4: state shared between activations
inline std::stringstream& shared_buffer()
{
    static thread_local std::stringstream buffer;
    return buffer;
}
inline void asynchronous(const std::string& r)
{
    std::thread t([r] { std::cout << r; });
    t.detach();
    auto f = std::async([] { return 1; });
    (void)f;
}

// R15.1: observing the target stream
inline void observing(std::ostream& s, const std::string& text)
{
    auto col = s.tellp();
    (void)col;
    std::stringstream priv;
    priv.copyfmt(s);
    s << text;
}
inline void write_only(std::ostream& s, const std::string& text) { s << text << std::endl; }

// R09.6: hand-written locks. broken_spin retries the CAS with the value a failed attempt stored into `expected`
struct broken_spin
{
    std::atomic<bool> locked_{ false };
    void lock()
    {
        bool expected = false;
        while (!locked_.compare_exchange_weak(expected, true))
        {
            while (locked_.load())
            {
            }
        }
    }
    void unlock() { locked_.store(false); }
};
struct good_spin
{
    std::atomic<bool> locked_{ false };
    void lock()
    {
        bool expected = false;
        while (!locked_.compare_exchange_weak(expected, true))
        {
            expected = false;
        }
    }
    void unlock() { locked_.store(false); }
};
// ticket locks: waiting on an ORDERED comparison breaks when the (finite) counters wrap; waiting on inequality does not
struct wrapping_ticket
{
    std::atomic<unsigned short> next_{ 0 }, serving_{ 0 };
    void lock()
    {
        const unsigned short ticket = next_.fetch_add(1);
        while (serving_.load() < ticket)
        {
        }
    }
    void unlock() { serving_.fetch_add(1); }
};
struct good_ticket
{
    std::atomic<unsigned short> next_{ 0 }, serving_{ 0 };
    void lock()
    {
        const unsigned short ticket = next_.fetch_add(1);
        while (serving_.load() != ticket)
        {
        }
    }
    void unlock() { serving_.fetch_add(1); }
};
struct spin_sinks
{
    broken_spin& bad_mutex() { static broken_spin m; return m; }
    good_spin& good_mutex() { static good_spin m; return m; }
    wrapping_ticket& bad_ticket() { static wrapping_ticket m; return m; }
    good_ticket& ok_ticket() { static good_ticket m; return m; }
    void with_wrapping_ticket(const std::string& r) { std::lock_guard<wrapping_ticket> l(bad_ticket()); std::cout << r; }
    void with_good_ticket(const std::string& r) { std::lock_guard<good_ticket> l(ok_ticket()); std::cout << r; }
    void with_broken(const std::string& r) { std::lock_guard<broken_spin> l(bad_mutex()); std::cout << r; }
    void with_good(const std::string& r) { std::lock_guard<good_spin> l(good_mutex()); std::cout << r; }
    void with_timeout(const std::string& r) { static std::timed_mutex m; std::unique_lock<std::timed_mutex> l(m, std::chrono::seconds(1)); std::cout << r; }
};

// R17.2: a scan from the right
inline void replace_from_back(std::string& str, const std::string& what, const std::string& with)
{
    auto pos = str.rfind(what);
    while (pos != std::string::npos && !what.empty())
    {
        str.replace(pos, what.length(), with);
        if (pos == 0)
            break;
        pos = str.rfind(what, pos - 1);
    }
}

// R06.3: range algorithms writing into the storage of a fixed_vector-like class (bounded / unbounded)
struct bulk_writer
{
    std::unique_ptr<int[]> data_;
    std::size_t size_ = 0;
    std::size_t capacity_ = 0;
    int* begin() { return &data_[0]; }
    int* end() { return &data_[size_]; }
    void refill_bounded(int v) { std::fill(begin(), end(), v); }
    void copy_unbounded(const std::vector<int>& src) { std::copy(src.begin(), src.end(), begin()); }
};

// R14.4: static state written on a parse-like path
static int call_counter = 0;
inline void counts_calls() { ++call_counter; }

// R04.12: a backtracking matcher over caller-supplied text / over a developer-supplied member; a function calling itself
inline bool matches_token(const std::string& token) { return std::regex_match(token, std::regex("-+[a-z]*")); }
struct pattern_holder
{
    std::string pattern_;
    bool has_hole() const { return std::regex_search(pattern_, std::regex("\\{\\}")); }
};
inline std::size_t letters(const char* p) { return *p ? 1 + letters(p + 1) : 0; }

// G-handlers: a handler that lets the exception vanish / passes it on / turns it into another class
struct first_error : std::runtime_error { using std::runtime_error::runtime_error; };
struct other_error : std::runtime_error { using std::runtime_error::runtime_error; };
void may_fail(int);
inline int swallows(int x)
{
    try { may_fail(x); }
    catch (...) { x = 0; }
    return x;
}
inline int passes_on(int x)
{
    try { may_fail(x); }
    catch (const first_error&) { x = 0; throw; }
    return x;
}
inline int translates(int x)
{
    try { may_fail(x); }
    catch (const first_error& e) { throw other_error(e.what()); }
    return x;
}

// G-fold: a fold whose start value is narrower than what the step function carries
inline std::size_t folds_narrow(const std::vector<std::size_t>& v)
{
    return std::accumulate(v.begin(), v.end(), 0, [](std::size_t s, std::size_t x) { return s * 31 + x; });
}
inline std::size_t folds_wide(const std::vector<std::size_t>& v)
{
    return std::accumulate(v.begin(), v.end(), std::size_t{ 0 }, [](std::size_t s, std::size_t x) { return s * 31 + x; });
}
// ---- round 12 scope-wide rules: positive / negative examples (the rules expect zero hits on /repo, these keep their recognisers honest)
// S1: a namespace-scope object with dynamic initialisation read by a function / a constant-initialised one
static const std::string dynamic_table_entry("yes");
constexpr int constant_table_entry = 3;
inline bool reads_dynamic_namespace_state(const std::string& w)
{
    return w == dynamic_table_entry;
}
inline bool reads_constant_namespace_state(int w)
{
    return w == constant_table_entry;
}
// S2: errno read without / with a clearing assignment in front
inline bool errno_stale(const char* text)
{
    long v = std::strtol(text, nullptr, 10);
    return errno == ERANGE || v == 0;
}
inline bool errno_cleared(const char* text)
{
    errno = 0;
    long v = std::strtol(text, nullptr, 10);
    return errno == ERANGE || v == 0;
}
// S7: a plain char widened into std::size_t / through unsigned char first
inline std::size_t widens_plain_char(const std::string& s)
{
    const std::size_t letter = s.front();
    return letter;
}
inline std::size_t widens_unsigned_char(const std::string& s)
{
    const std::size_t letter = static_cast<unsigned char>(s.front());
    return letter;
}
} // namespace vfix

