#!/bin/sh
# try_seed.sh <patch> <Cxx>...: apply a seeded change to /repo, run the given checks, undo it straight afterwards
PATCH=$(readlink -f "$1"); shift
cd /repo || exit 9
if [ -n "$(git status --porcelain --untracked-files=no)" ]; then echo "repo dirty, refusing"; exit 9; fi
if ! git apply "$PATCH" 2>/dev/null; then
  if ! git apply --3way "$PATCH" 2>/dev/null; then echo "PATCH-DOES-NOT-APPLY $PATCH"; git reset -q --hard HEAD; exit 8; fi
  git reset -q
fi
cd /verif
for P in "$@"; do ./check $P 2>&1 | grep -E "VIOLATION|ANALYSIS-BROKEN|KNOWN|obligations" | cut -c1-400; echo "exit=$? ($P)"; done
git -C /repo checkout -q -- . ; git -C /repo clean -fdq -e _build
