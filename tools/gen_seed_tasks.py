#!/usr/bin/env python3
"""Write the task files for one round of seeded changes: tools/gen_seed_tasks.py <round-tag> <areas-file>
-> /tmp/seed<tag>-Cxx/TASK.md for every property (worktree /tmp/wt<tag>-Cxx is created by the caller).
The frame is tools/templates/seed_task.md; <areas-file> holds the block "What this round is looking for";
the summaries of all earlier seeded changes of the property are listed as "do not repeat"."""
import glob
import json
import os
import sys

HERE = os.path.dirname(os.path.dirname(os.path.abspath(__file__)))
tag, areas = sys.argv[1], open(sys.argv[2]).read()
props = {json.loads(l)['id']: json.loads(l) for l in open(os.path.join(HERE, 'properties.jsonl'))}
t = open(os.path.join(HERE, 'tools', 'templates', 'seed_task.md')).read()
extra = '''

## Earlier attempts - do NOT repeat any of these (choose other code sites and other mechanisms)

{avoid}

## What this round is looking for

{areas}

Keep each change small and plausible; it must look like something a maintainer would merge after a quick review.
'''
for pid, p in sorted(props.items()):
    av = []
    for d in sorted(glob.glob(os.path.join(HERE, 'seeded', '%s-*' % pid))):
        try:
            m = json.load(open(d + '/meta.json'))
        except Exception:
            continue
        av.append("- %s" % (m.get('summary') or m.get('mechanism') or '')[:230].replace('\n', ' '))
    out = '/tmp/seed%s-%s' % (tag, pid)
    wt = '/tmp/wt%s-%s' % (tag, pid)
    os.makedirs(out, exist_ok=True)
    prop = "**%s**\n\n%s\n\nQuantification: %s" % (p['title'], p['statement'], p['quantifier']['text'])
    body = t.format(wt=wt, out=out, prop=prop, pid=pid)
    body = body.replace("## What to produce", extra.format(avoid="\n".join(av), areas=areas.strip("\n")).strip("\n") + "\n\n## What to produce", 1)
    open(out + '/TASK.md', 'w').write(body)
print("tasks written for", len(props), "properties")
