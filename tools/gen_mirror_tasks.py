#!/usr/bin/env python3
"""Write the task files for one round of property-preserving changes: tools/gen_mirror_tasks.py <tag> <template>
-> /tmp/mir<tag>-Cxx/TASK.md for every property (worktree /tmp/mwt<tag>-Cxx is created by the caller)."""
import json
import os
import sys

HERE = os.path.dirname(os.path.dirname(os.path.abspath(__file__)))
tag, t = sys.argv[1], open(sys.argv[2]).read()
for l in open(os.path.join(HERE, 'properties.jsonl')):
    p = json.loads(l)
    out, wt = '/tmp/mir%s-%s' % (tag, p['id']), '/tmp/mwt%s-%s' % (tag, p['id'])
    os.makedirs(out, exist_ok=True)
    prop = "**%s**\n\n%s\n\nQuantification: %s" % (p['title'], p['statement'], p['quantifier']['text'])
    open(out + '/TASK.md', 'w').write(t.format(wt=wt, out=out, prop=prop, pid=p['id']))
print("mirror tasks written")
