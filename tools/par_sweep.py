#!/usr/bin/env python3
"""Run a sweep in N private mount namespaces at once.

Each shard gets a clone of /repo's HEAD and a snapshot of /verif, bind-mounted over /repo and /verif inside its own
mount namespace (unshare -m), so "/repo" can be patched there while the real trees stay untouched and usable.

usage: tools/par_sweep.py refactors [-j N] [--checks C01,C02] [PATCH...]     (default: refactors/*.patch.diff)
       tools/par_sweep.py seeds     [-j N] [--all-checks] [SEED...]          (default: every directory in seeded/)
Seed results are merged into the real seeded/SWEEP.json; the table is printed in input order.
"""
import json
import os
import shutil
import subprocess
import sys

HERE = os.path.dirname(os.path.dirname(os.path.abspath(__file__)))


def sh(cmd):
    return subprocess.run(cmd, shell=True, stdout=subprocess.PIPE, stderr=subprocess.STDOUT, text=True)


def main():
    argv = sys.argv[1:]
    mode = argv.pop(0)
    n = 12
    passthru = []
    items = []
    while argv:
        a = argv.pop(0)
        if a == "-j":
            n = int(argv.pop(0))
        elif a == "--checks":
            passthru += [a, argv.pop(0)]
        elif a.startswith("--"):
            passthru.append(a)
        else:
            items.append(a)
    if mode == "refactors":
        items = [os.path.abspath(x) for x in items] or sorted(os.path.join(HERE, "refactors", f) for f in os.listdir(os.path.join(HERE, "refactors")) if f.endswith(".patch.diff"))
        items = [x.replace(HERE + "/", "") for x in items]
        tool = "tools/try_refactors.py"
    else:
        items = [os.path.basename(x.rstrip("/")) for x in items] or sorted(d for d in os.listdir(os.path.join(HERE, "seeded")) if os.path.isdir(os.path.join(HERE, "seeded", d)))
        tool = "tools/sweep_seeds.py"
    n = max(1, min(n, len(items)))
    shards = [items[i::n] for i in range(n)]
    procs = []
    for i, shard in enumerate(shards):
        v, r, log = "/tmp/ns%d-%d-verif" % (os.getpid(), i), "/tmp/ns%d-%d-repo" % (os.getpid(), i), "/tmp/ns%d-%d.log" % (os.getpid(), i)
        shutil.rmtree(v, ignore_errors=True)
        shutil.rmtree(r, ignore_errors=True)
        sh("rsync -a --exclude build/cache --exclude .git --exclude evidence/replay %s/ %s/ && mkdir -p %s/build/cache" % (HERE, v, v))
        sh("git clone -q /repo %s" % r)
        if os.path.exists(os.path.join(v, "seeded", "SWEEP.json")):
            os.remove(os.path.join(v, "seeded", "SWEEP.json"))
        inner = "mount --bind %s /repo && mount --bind %s /verif && cd /verif && python3 %s %s %s > %s 2>&1" % (r, v, tool, " ".join(passthru), " ".join(shard), log)
        procs.append((i, subprocess.Popen(["unshare", "-m", "sh", "-c", inner]), log, v, r))
    lines = {}
    merged_seeds = {}
    for i, p, log, v, r in procs:
        p.wait()
        for l in open(log).read().splitlines():
            key = l.split()[0] if l.strip() and not l.startswith(" ") else None
            if key:
                lines.setdefault(key, []).append(l)
                last = key
            elif l.strip():
                lines.setdefault(last, []).append(l)
        sp = os.path.join(v, "seeded", "SWEEP.json")
        if mode == "seeds" and os.path.exists(sp):
            merged_seeds.update(json.load(open(sp)))
        shutil.rmtree(v, ignore_errors=True)
        shutil.rmtree(r, ignore_errors=True)
        os.remove(log)
    for it in items:
        key = "/".join(it.split("/")[-2:]) if mode == "refactors" else it
        for l in lines.get(key, ["%s  (no result)" % key]):
            print(l)
    if mode == "seeds":
        path = os.path.join(HERE, "seeded", "SWEEP.json")
        cur = {}
        if os.path.exists(path):
            try:
                cur = json.load(open(path))
            except ValueError:
                cur = {}
        allc = "--all-checks" in passthru
        for k, val in merged_seeds.items():
            if allc or k not in cur or not cur[k].get("results") or len(cur[k]["results"]) <= 1:
                cur[k] = val
            else:
                cur[k]["results"].update(val.get("results", {}))
        json.dump(cur, open(path, "w"), indent=1, sort_keys=True)
    return 0


if __name__ == "__main__":
    sys.exit(main())
