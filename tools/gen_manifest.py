#!/usr/bin/env python3
"""Regenerates MANIFEST.json from the table below (one entry per claimed property)."""
import json
import os

HERE = os.path.dirname(os.path.dirname(os.path.abspath(__file__)))

NOTE = ("trusted: clang 14 front end + CFG builder, cmake's compile database, the python analyses (validated by fixtures and "
        "seeded variants); assumed away: allocation failure, stack exhaustion, user types with throwing destructors. "
        "The check decides the listed structural clauses only - see DESIGN.md section 5 'Not decided'.")

CLAIMS = {
    "C08": dict(
        technique="taint-style subject analysis of searches + regex-literal language equality + must-facts on the arity guards + shape rules",
        text="Static: every regex search / find / replace in formatter::str runs over format_ only (substituted text cannot be rescanned); "
             "the placeholder literal denotes exactly {\"{}\"} (automata equality); the 'more' raise sits on `placeholder == end` inside "
             "the argument loop, the 'less' raise after it, and `return result` is reachable only when no placeholder remains; operator% "
             "renders through one fresh local stream with a single insertion and appends to args_; args(a, rest...) applies % in order; "
             "slice / resume / argument-text appends have the specified linear form; exception messages are streamed in argument order. "
             "The output equation for brace corner cases depends on std::regex_iterator (not decided).",
        ref="5/C08"),
    "C15": dict(
        technique="interprocedural observation-set (effect) analysis of the target stream + CFG/order rules on the listing code",
        text="Static, all streams: following the std::ostream& parameter of parser::usage through every callee that receives it, the stream is "
             "only ever the left operand of insertions (no tellp/width/flags/rdbuf/copyfmt or hand-over to an observing routine), so the text "
             "cannot depend on the stream; group::usage iterates the creation-order list and formats each entry once; groups are listed default "
             "first then in creation order, both lists appended only on successful insertion; the synopsis reads all three kinds; base::format "
             "inserts both spellings, the placeholder, description, env hint and default. The 80-column bound / wrapping is not decided.",
        ref="5/C15"),
    "C17": dict(
        technique="loop/termination idiom rules + linear resume-expression rules + must-facts on the infix insertion + idiom table",
        text="Static: every find(needle, pos) loop rejects the empty needle first or steps pos forward explicitly for an empty match; split "
             "resumes at hit + needle.size() with pieces substr(start, hit - start) / substr(start); replace_all replaces (hit, "
             "pattern.length()) and resumes at hit + replacement.length(); join returns the stream text unmodified, inserts elements "
             "directly and writes the infix only when the current element is known non-empty and not first; starts_with is a position-0 "
             "idiom. The split/join inverse law and piece counts are equations over runtime strings (not decided).",
        ref="5/C17"),
    "C16": dict(
        technique="sibling-table shape rules + instantiation census over the resolved call tree + type-level witnesses",
        text="Static: the six comparison operators are as_tuple(x) OP as_tuple(y) with their own symbol and operand order; hash() is "
             "lang::hash(as_tuple(*this)) on every path and the mix-in is stateless; for tuples of size 0..5 (and the variant used) the "
             "instantiated call tree applies std::get<I>/get_if<I> for exactly I = 0..N-1 in order, each through hash() into "
             "hash_combine_impl; pair/pointer/wrapper/hashable overloads delegate as specified; every scalar/string instantiation is "
             "exactly std::hash<T>()(t); the combine step mixes a shifted seed. Collision frequency is not decided.",
        ref="5/C16"),
    "C19": dict(
        technique="must-facts equivalence on the getenv test + constructor/deleter shape rules + call-order rule on the symbol lookup",
        text="Static: both env::get overloads reach the default/raise under exactly `getenv(name.c_str()) == nullptr` and otherwise return "
             "std::string of that pointer; both dl constructors build a shared_ptr<void> from dlopen with a lambda deleter that calls "
             "dlclose on its argument under a non-null test, and raise dl::exception(dlerror(), ...) exactly when the handle is null; "
             "dlclose appears nowhere else; symbol holds the shared_ptr by value from its parameter and dl::load passes the own handle; "
             "the lookup is dlerror(); dlsym; dlerror() with the last result deciding; the exception stores the diagnostic.",
        ref="5/C19"),
    "C20": dict(
        technique="type-level matrix (static_assert) + expression-shape rules on the adaptor patterns + storage scan",
        text="Static: 26 type cells (aliasing reference types for lvalue ranges, owning adaptor types for rvalue/initializer-list/array "
             "ranges, reverse iterator types) and 6 must-compile cells; the enumerating iterator starts at (begin, 0), ends at end, advances "
             "iterator and index on every path, compares iterators only and pairs index_ with *it_; reverse is built on rbegin/rend (crbegin/"
             "crend for owned ranges); owning adaptors hold only the container and take it by move; no static/thread_local storage.",
        ref="5/C20"),
    "C05": dict(
        technique="type-level witnesses + ownership/typestate rules on the smart_stream CFGs + expression-shape rules for filters and fan-out",
        text="Static: a statement object is move-only with unique_ptr members and a complete move constructor; the destructor emits once "
             "under `if (r)`; rvalue operator<< hands ownership on, lvalue returns the same object; the filter is asked exactly once per "
             "statement and formatter/sink are reachable only through ~smart_stream -> logger::log; and/or/not/severity/null filters have the "
             "specified truth tables; the compile-time gate matrix holds for the compiled minima; sequence fan-out expands inside a braced "
             "list over a full index sequence; the message is the buffer text unmodified; no static/thread-shared/asynchronous state. "
             "Text equality for all streamed types is the library operator<<'s business (not decided).",
        ref="5/C05"),
    "C10": dict(
        technique="exhaustive type-level matrix (static_assert per cell and minimum) + CFG dominance rules for lazy callables",
        text="Static, exhaustive over (severity, compile-time minimum): decltype(logger::sev()) is the discarding stream iff sev < minimum "
             "(expected values from the documented order, not from the enum); the discarding operator<< never touches its operand; in the "
             "smart_stream overloads a streamed callable is invoked exactly once and only under `if (s)`; exactly one overload is viable for "
             "callables and for plain values; the constructor consults will_log once on every path and creates the buffer only when accepted.",
        ref="5/C10"),
    "C06": dict(
        technique="abstract interpretation (zones / difference-bound matrices) over the fixed_vector template pattern + CFG ordering rules",
        text="Static, all capacities / operation histories / element types: with the class invariant 0 <= size_ <= capacity_ assumed at "
             "entry, every method is proven to re-establish it; every storage subscript is proven inside [0, capacity_) (or [0, capacity_] "
             "when only its address is taken); checked operations test against size_; size_ grows only below capacity_ and only right after "
             "slot size_ was written; nothing is written before a raise in single-element operations; constructors allocate exactly capacity_ "
             "slots; no manual memory management. One known finding (moved-from capacity, pinned by a test). Element-type behaviour under "
             "throwing operations is covered only through the ordering rules.",
        ref="5/C06"),
    "C07": dict(
        technique="type-level witnesses (static_assert / must-compile instantiation) + CFG must-write rules + zone analysis of the shift loops",
        text="Static: the three operator= return fixed_vector&, write all of size_/capacity_/data_ on every non-self path and return *this; "
             "copy/move construction transfers every state field; rbegin/rend & co are std::reverse_iterator by type; every member "
             "(templates included) instantiates for int, std::string and a move-only type; erase shifts data_[k] <- data_[k+1] ascending "
             "within size_ then decrements; positional emplace appends then moves the element in front of pos; the append family writes "
             "slot size_ before incrementing. Equality with a reference list over histories is not decided.",
        ref="5/C07"),
    "C01": dict(
        technique="iteration-path enumeration of the token loop + CFG must-precede rules + boolean-skeleton entailment",
        text="Static, token level, all argument vectors: every feasible iteration path of parse()'s token loop consumes the token "
             "(positional append, `--` mode switch, or a true result of try_parse_as_option/toggle) or ends in raise<parsing_error>; "
             "try_parse_* report a match only after update_value on the matched object; every update_value changes the value state on all "
             "exits; matches() can be true only under a comparison with the option's own name/letter; option values are stored uncut. "
             "NOT decided: letter-level accounting inside bundles (-vz, -vo file) - genuine deviations today, documented in DESIGN.md.",
        ref="5/C01"),
    "C02": dict(
        technique="verbatim value-flow (carrier) analysis + must-facts on the value/next-token selection + regex-literal language inclusion",
        text="Static: the value stored by option/multi_option is a copy-only carrier of user_input::value(); value() returns the whole "
             "argument for value tokens and the part after the FIRST '=' otherwise (constructor split checked); lists only grow by append; "
             "the next token is taken as value only under !has_value && next != end && next->is_value with the extra advance exactly then; "
             "the token regex literal provably accepts every byte string after a well-formed name and '=' (automata inclusion); as<T>() uses a "
             "fresh default-state stream. The round-trip equation over all spellings is not decided.",
        ref="5/C02"),
    "C13": dict(
        technique="sibling-shape + must-facts on the declaration functions, derived-state coupling over write sets, special-member facts from the AST",
        text="Static: each group::option/multi_option/toggle inserts only under the cross-kind name guard (raising parser_error), keeps "
             "the creation-order list in sync and returns the map element; has_option_with_name consults every kind and no stale derived "
             "state; the short_name setter's two guards dominate the assignment; parse() runs the letter-uniqueness check first, with one "
             "set for all kinds and groups; kind exhaustiveness of collectors; parser's move operations are user-provided and rebind groups.",
        ref="5/C13"),
    "C03": dict(
        technique="must-facts dataflow on the three check() functions + verbatim value-flow (carrier) analysis + CFG path rules",
        text="Static, all inputs/environments: in option/multi_option/toggle::check the environment lookup is proven to be dominated by "
             "has_env and 'nothing given on the command line', every use of the environment value by its non-emptiness test, the default by "
             "not-given with no path mixing environment and default, the required-option error by its full condition; dirty_ (provided) is set "
             "on every command-line and environment path and on no default path; the stored environment value is a copy-only carrier of "
             "env::get (pieces via getline(...,';')). Decides order/conditions/verbatimness, not value contents.",
        ref="5/C03"),
    "C11": dict(
        technique="must-facts dataflow + boolean-skeleton equivalence + closed-vocabulary table comparison",
        text="Static, all inputs: toggle::update_value performs exactly one count update per path of the branch's required form (=0 for --no-, "
             "+= letter multiplicity for short tokens, +1 otherwise) under the reversal, conflict and no-value guards (all raising parsing_error); "
             "toggle::matches is equivalent to its specification formula; parse_env_value accepts exactly the 30 documented words with the word "
             "compared verbatim, anything else raises; toggle::check source order as in C03. Mixed declared/undeclared bundles are not decided.",
        ref="5/C11"),
    "C12": dict(
        technique="iteration-path enumeration of the token loop under must-facts + carrier analysis + index-normalisation facts",
        text="Static, all argument vectors: once the only-positionals mode is on (and for every value token) an iteration of parse()'s token "
             "loop can only append the token verbatim or raise the limit error; the mode flag(s) are monotone and switched on exactly by `--` "
             "and by the first positional in greedy mode; every append is dominated by the limit comparison whose other edge raises; "
             "arguments::get(int) normalises negative indices and uses at(); parse(argc, argv) syntax-checks tokens only before `--`. "
             "The arithmetic of 'at most n' is not decided.",
        ref="5/C12"),
    "C04": dict(
        technique="context-sensitive must-facts dataflow over the call graph below parse() + truth-table entailment of guard preconditions",
        text="Static, all inputs: every raise/throw site reachable from either parse() overload is, in each of its calling contexts, "
             "either raise<parsing_error> or proven unreachable because the guard's precondition (derived from the accessor's own source, "
             "predicate definitions inlined) is entailed by the branch facts on every path; standard-library throwers on the parse path "
             "need a checked justification; iterator dereference/advance only under the end test; the eight documented rejections keep a "
             "parsing_error guard; the token regex literal is well-formed. Does not decide that errors are raised *exactly* under the "
             "documented conditions, nor resource exhaustion in std::regex_match.",
        ref="5/C04"),
    "C09": dict(
        technique="lock-scope dataflow on the sink CFGs + storage/linkage classification of the mutex + who-may-touch scan",
        text="Static, all schedules (given std::mutex / magic-static guarantees): in the mutex-protected stdout/stderr sinks every "
             "reference to the guarded stream, including the flush, lies inside the lifetime of one scoped lock object; the mutex is one "
             "object per process (not automatic, not an internal-linkage header variable); no other log code touches the streams; "
             "smart_stream holds only per-object owners and no static/thread-shared state; logger::instance is a magic static.",
        ref="5/C09"),
    "C14": dict(
        technique="call-graph write-set + CFG must-reset-on-all-paths analysis",
        text="Static, all-paths: every field of option/multi_option/toggle (and of the parser itself) that is written anywhere on the "
             "call graph below parser::parse is proven to be reset by K::prepare() / at the start of parse on every CFG path, and "
             "prepare_options() dominates the token loop and validate_options. Holds for every argument vector and history because it "
             "is a statement about all paths of the code, not about sampled runs. Does not decide aliasing of earlier `arguments` objects.",
        ref="5/C14"),
    "C18": dict(
        technique="type-level witnesses + AST pair rule + CFG must-write / guarded-dereference analysis",
        text="Static: quaint_ptr's move-only/private-unique_ptr shape is decided by the compiler's type checker (13 tagged static_asserts); "
             "make_quaint's new-type/deleter-cast-type pair, absence of release(), optional's fresh-allocation copies, write-on-every-path "
             "copy assignment and guarded dereference are decided on the template pattern (all T) and on instantiations. "
             "Exactly-once destruction itself is inherited from std::unique_ptr (trusted).",
        ref="5/C18"),
}


# rules added after the first version (DESIGN.md sections 14/15); appended to the level text of the check
ADDENDA = {
    "C01": "Letter level (R01.7/R01.8): in the caller's context no update_value of a value-taking option is reachable for a short token with several letters; "
           "try_parse_as_toggle accumulates count(short_name()) of the matched toggles, compares with the bundle size and raises parsing_error on a mismatch "
           "(recognised accounting idiom; another idiom is reported as analysis-broken); matches() is true only under equality of name() with a whole-name accessor "
           "of the token, and those accessors return the entire name behind their prefix.",
    "C02": "Toggle counts (R02.6 = R11.1/R11.6): the count is reset to literal 0 by prepare() and incremented once per token in the required form.",
    "C03": "R03.6 (= R14.2): prepare() empties the value state on every path, through assignment operators that really overwrite, so a value of an earlier parse cannot outrank the environment.",
    "C04": "R04.5 (no spurious error, two necessary conditions): every parse starts from emptied value state (R14.2) and an option claims a token only under its own whole name or letter (R01.5/7/8).",
    "C05": "R10.4 additions: the destructor can bypass logger::log only on the no-record edge (emits-whenever-record); no record attribute is set after will_log was asked.",
    "C06": "R06.9: begin/cbegin address slot 0, end/cend slot size_, reverse accessors are built on them. Range algorithms writing into the storage are bounded like subscripts. "
           "Every function that writes at or beyond size_ without having installed storage itself is an instance of the moved-from-capacity finding (listed one by one).",
    "C07": "R07.1 is path-sensitive: a field need not be written on a path whose branch established field == source.field; an in-place element copy counts for data_.",
    "C08": "The loop equation is decided by abstract interpretation over symbolic positions (sa/strsym.py: before-loop / one generic iteration / after-loop; no solver): "
           "pieces == [format[I,P), text(arg)], cursor' == P+L, both iterators advance once, tail format[I,END).",
    "C09": "R09.6: the scoped lock object is built by a blocking constructor (no defer/try/adopt/timeout argument); the mutex is a standard one, or a hand-written lockable whose acquire loop "
           "is verified (must-dataflow: compare_exchange's expected value is `free` on every path into the call; lock() returns only through the success edge; unlock stores `free`).",
    "C10": "R10.4 additions as for C05 (emits-whenever-record, filter-sees-complete-record); edge dominance is exact and negation-aware.",
    "C11": "R11.6 count reset to literal 0 in prepare(); R11.7 one integral type for count, default member, default_value() parameter and given(); R11.4 also accepts the constant-table idiom.",
    "C12": "is_value() is proved equivalent to `does not start with a dash` (two entailments); R12.5 evaluates the index handed to at() as a linear form per sign of the parameter; "
           "R12.7 who-may-write: only accept_positionals() sets the accepted count, only greedy_postionals() the greedy switch.",
    "C13": "R13.5 addition: the back-reference is rewritten in a loop over the container that owns the groups (a derived list may omit the default group).",
    "C15": "R15.2 who-may-write the creation-order lists (append at creation, whole hand-over on move, nothing else). R15.5 necessary conditions of the 80-column clause: the full width is "
           "granted only at the pad column, the budget cannot wrap (signed or guarded), every written word is charged.",
    "C17": "R17.2 scan direction: no backward search primitive (occurrences are chosen in one left-to-right pass).",
    "C18": "R18.6 quaint_ptr's move operations are unique_ptr's own (defaulted) or delegate to them. R18.4 additions: every assignment operator of optional overwrites the storage on all paths; "
           "the copy assignment does not read the source after releasing its own storage (self-assignment).",
    "C20": "AST rules are role-based (a member is what the constructor initialises it from). R20.5 (= R06.9): fixed_vector's iterator accessors delimit exactly its elements.",
}
ADDENDA2 = {
    'C01': 'R01.9 (= R03.1) check() leaves command-line values alone; R01.10 as_short_list() is a multiset with one entry per letter.',
    'C02': 'R02.7: R03.1, R01.5, R01.8 and R01.10 re-evaluated (a spelled value is final; matching is exact; bundles are accounted over all toggles).',
    'C03': 'R03.6 also covers the reset pass being unconditional (R14.3); R03.7 (= R19.1) the environment wrapper returns the variable verbatim.',
    'C04': 'R04.5 also re-evaluates R14.3 and R02.4; R04.6 (= R12.3, R12.6) the positional limit and the token syntax check are in force on every path.',
    'C05': 'R05.4 threshold storage is one object per (record, index) (three witness instantiations); R05.9 record attributes own their data; the fan-out may be a lambda or a stateless function object.',
    'C06': "Bulk reads of another container stay below its size_; a compiler-generated move is evaluated on the class's special members.", 'C07': 'R07.6 emplace direct-initialises the element and a range insert walks its source once.',
    'C09': 'R09.2 also rejects a mutex reached through a static pointer that is assigned after its declaration (unsynchronised create-on-first-use).',
    'C10': 'R10.3 gate-means-accepted: smart_stream::operator bool is equivalent to `the message buffer exists`; R05.4 re-evaluated.',
    'C11': 'R11.3 the --no- form is matched by whole-name equality; R11.8 (= R19.1, R14.3).',
    'C12': "R12.8 parser's move operations transfer every data member; a member positional list is emptied before the loop.", 'C13': 'R13.6 base::name_ is the declared string verbatim.',
    'C14': 'R14.3 works on the reset / resolution passes of parse() (calls reaching every prepare()/check()), requires prepare() unconditionally for every option and a reset pass in parse(vector).',
    'C15': 'R15.6 constant width <= 80 and no environment read on the usage path; R15.7 (= R08.x) and R15.8 (= R14.1/R14.2).',
    'C16': "Witness cells w11-w13: the containers' key_equal is std::equal_to.", 'C17': 'R17.4 also checks guarded early answers of starts_with.',
    'C18': 'R18.7 overload-resolution witness for copies of optional<bool>; deleter owned by value; one notion of empty.',
    'C20': 'Witness cells w27-w33 (const rvalues are owned, const proxies alias, char arrays take the array overload).',
}

ADDENDA3 = {
    'C01': 'R01.11 a value-taking option swallows a following token only when it is dash-less; R01.8 accepts every equivalent comparison form of the accounting guard.',
    'C03': 'R03.3 liveness: no feasible path through check() leaves an ungiven option with a declared default untouched.',
    'C04': 'R04.1 also requires literal format strings with matching arity on the parse path; R01.11 re-evaluated.',
    'C05': 'R05.7 value overloads of operator<< take the item by reference; R05.4 the threshold object is not thread_local.',
    'C07': 'R07.6 forwarding-reference parameters are never std::move()d.',
    'C08': 'R08.4 the chaining members return the same formatter by reference.',
    'C10': 'R05.4 (threshold is process-wide) re-evaluated.',
    'C12': 'R12.5 covers operator[] (signed index, delegation to get() or the same normalisation).',
    'C13': 'R13.4 the letter walk is on every path through check_parser_consistency().',
    'C15': 'R15.5(d) a word is put on the current line only under a comparison implying it fits or cannot fit on any line (integer half-space implication); R15.4 format_default() yields a hint for every declared default.',
    'C17': 'R17.4 decides find/rfind(p, k) == 0 for k other than 0.',
    'C19': 'R19.2 the dlopen mode is a constant with RTLD_NOW and without RTLD_NODELETE / RTLD_NOLOAD.',
    'C20': 'R20.1 every carrier of the running index is as wide as std::size_t; witness cells w34-w37 (const iterator dereference aliases).',
}

ADDENDA4 = {
    'C01': 'R01.12 (= R11.2) and R01.13 (= R13.4) re-evaluated: a toggle token with =value is rejected; the letter-uniqueness check runs on every parse.',
    'C02': 'R02.8: R14.2 and R12.10 re-evaluated (clean state per parse; raw strings become tokens in one place).',
    'C03': 'R03.8 the bound variable name is stored verbatim (copy-only carrier of the setter argument).',
    'C04': 'R04.7 nothing on the options path is declared noexcept and reaches a raise.',
    'C05': 'R05.4 the threshold object is constant-initialised; R10.4 hand-over obligations re-evaluated.',
    'C06': 'R06.5 an assignment to size_ never grows the visible range.',
    'C07': 'R07.2 a move leaves the source empty; R07.8 overload-resolution witness for the four assignment forms.',
    'C08': 'R08.6 nothing in the formatter / exception machinery is declared noexcept and reaches a raise.',
    'C09': 'R09.5 the logger instance is one per process (not thread_local); R09.7 (= R10.4) one statement is one sink call.',
    'C10': 'Witness cells a1-a10 (pack-membership trait, has_attribute at every position); R10.4 log() hands the record over exactly once and unmodified.',
    'C11': 'R11.9: R04.7 and R12.1 re-evaluated.',
    'C12': 'R12.9 no narrowing of the accepted count; R12.10 every further parse() overload delegates to parse(argc, argv).',
    'C13': 'R13.3 short_ is modified only by the guarded setter; R13.7 (= R01.5).',
    'C15': 'R15.9 no function-local static state on the usage path; R15.2 the default group is found by its key.',
    'C16': 'R16.6 no function-local static / thread_local state on the hashing path - also under build-time switches unknown to rules/known_macros.txt (configuration sweep).',
    'C17': 'R17.5 no function-local static / thread_local state in the string helpers.',
    'C18': 'R18.8 overload-resolution witness: a value of the payload type (nullptr included) engages the optional; witness cells w14-w16 (what quaint_ptr re-exports).',
    'C19': 'R19.3 dlopen only as the initialiser of an owning handle.',
    'C20': 'Witness cells w38-w40 (further call forms given a temporary range own it).',
}

ADDENDA5 = {
    'C02': 'R12.11 (no use after move) re-evaluated.',
    'C03': 'R02.4 re-evaluated as part of R03.7.',
    'C04': 'R03.1 / R03.3 (given-ness) re-evaluated as part of R04.6.',
    'C06': 'R06.10 (= R07.6, R07.9).',
    'C07': 'R07.6 covers move iterators over a forwarding-reference parameter; R07.9 no narrowing of size_ / capacity_.',
    'C09': 'R09.6 also decides ticket locks (wait on inequality only).',
    'C10': 'R05.1 (ownership along the << chain) re-evaluated as part of R10.3.',
    'C11': 'R03.8 and R13.9 re-evaluated as part of R11.9.',
    'C12': 'R12.11 nothing on the options path reads a moved-from local.',
    'C13': 'R13.8 (= R15.2 default group by key); R13.9 the parser keeps no stale copy of the declarations.',
    'C14': 'R14.4 argv is consumed before the reset pass; writes through reference locals bound to members count as member writes.',
    'C15': 'R15.3 no custom-ordered associative container on the usage path; R15.10 every std thrower reachable from usage() is discharged.',
    'C17': 'R17.4 both operands of starts_with carry their length.',
    'C20': 'R20.1 end() carries no constant index once the iterator can step backwards.',
}

ADDENDA6 = {
    'C02': 'R02.4 decides the token check in either form: language inclusion for a regex literal, the finite token abstraction A10 (sa/tokeneval.py) for a check written out by hand. R14.3 / R14.5 re-evaluated as part of R02.8.',
    'C03': 'R02.4 (either form) re-evaluated as part of R03.7.',
    'C04': 'R04.12 stack use on the parse path does not grow with the length of an argument (every std::regex run reachable from parse() is over developer-supplied text; no library function on the path is on a call cycle). R04.4 for a hand-written token check (A10): in-bounds reads, refusals are parsing_error, refused tokens are exactly the malformed dash tokens. R04.13 catch handlers neither swallow nor change the class of parsing_error. std throwers include reserve / resize. R14.5, R13.9, R12.3 (range appends) re-evaluated.',
    'C06': 'R06.11 noexcept members perform no element operation; R06.12 no catch handler lets an exception vanish.',
    'C07': 'R06.6 (a refused operation leaves the sequence unchanged) re-evaluated as part of R07.5; R07.6 accepts delegation to the sibling emplace.',
    'C08': 'R08.7 no catch handler in the formatter / exception machinery lets the arity error vanish.',
    'C10': 'Witness cells w13-w48: the compile-time gate is the same for every sink the library ships.',
    'C11': 'R04.13 (handlers) and R14.2 (what check() stores is emptied by prepare()) re-evaluated; the letter multiplicity may be taken from the token text (std::count), R01.10.',
    'C12': 'R12.12 every std thrower reachable from parse() (incl. reserve / resize) is discharged; R12.3 covers whole-range appends to the positional list.',
    'C13': 'R13.3 every normal return of short_name() has seen a one-character argument.',
    'C14': 'R14.5 no data member of parser is written on the parse path.',
    'C15': 'R15.11 no member of the option classes is written on the usage path; R15.12 no function of parser / group overwrites the name / description of an existing option.',
    'C16': 'R16.3 accepts std::visit for the variant hash only behind !valueless_by_exception().',
    'C17': 'R17.3 the flag that holds the infix back is only ever cleared inside the loop.',
    'C19': 'R19.8 no catch handler in the dl / env wrappers lets a failure vanish; R19.2 resolves named deleter functions, which library code never calls directly.',
    'C20': 'R20.1 no re-callable member hands a data member to std::move; the index is advanced after the wrapped iterator.',
}

ADDENDA7 = {
    'C01': 'Evaluated also on the -DNDEBUG configuration when the library uses assert (a check or an insertion that lives inside an assert is gone in release builds).',
    'C02': 'R12.13 (the parser\'s hand-written move operations take over every member) re-evaluated.',
    'C03': 'R03.9 (= R15.11) nothing on the usage path rewrites a declared default; -DNDEBUG configuration.',
    'C04': 'R04.14 no table indexed with a plain char; A10 decides order comparisons of a character against a literal; R11.4 re-evaluated as part of R04.5.',
    'C05': 'R05.4 covers partial specialisations of not_filter (double negation).',
    'C06': 'Unsigned x - k is a difference only where x >= k is known (wrap-around).',
    'C07': 'R06.9, R06.4, R06.2 re-evaluated as part of R07.5.',
    'C09': 'R05.1 re-evaluated as part of R09.7.',
    'C10': 'R10.5 instantiation census over record layouts (severity without tag); must-compile cells m8 / m9.',
    'C11': 'R11.10 who-may-write reversable_; R11.4 reads function-local static tables.',
    'C12': 'R12.13 special members complete; R12.14 (= R02.3, R04.4).',
    'C13': '-DNDEBUG configuration.',
    'C15': 'R15.4 every path through base::format consults default, env hint, description; R13.1 / R13.2 re-evaluated as part of R15.8.',
    'C16': '-DNDEBUG configuration.',
    'C18': 'R18.9 noexcept / handlers; R18.2 judges every deleter; -U<feature macro> configurations.',
    'C19': 'R19.9 special members of dl / symbol complete; -DNDEBUG configuration.',
    'C20': '-DNDEBUG configuration.',
}

ADDENDA8 = {
    'C01': 'R01.14 parse(argc, argv) passes no element of argv over (no way from the head of a token-building loop back to it without an append).',
    'C02': 'R02.5 typed access extracts into the requested type; R02.9 options are offered a token before toggles; R12.10 re-evaluated (type-level witnesses).',
    'C03': 'R11.7 (one integral type for a toggle default) re-evaluated as R03.7.',
    'C08': 'R08.5 raise() forwards its whole argument pack; unresolved calls whose every candidate is [[noreturn]] end their block.',
    'C09': 'R09.8 the thread-safe sinks receive the record with its length (string, view, or pointer + count).',
    'C12': 'R12.10 string-accepting entry points decided by type-level witnesses (witness/tl_C12.cpp); R12.15 accessors not noexcept; R12.16 (= R01.14).',
    'C13': 'A letter set kept in a structure other than std::set is answered as analysis-broken (limit, DESIGN section 13).',
    'C14': 'R14.6 state of a group written on the parse path is reset for every element of parser::groups_.',
    'C16': 'R16.7 a std fold on the hashing path starts from a std::size_t (fixtures folds_narrow / folds_wide).',
    'C17': 'R17.4 knows the three-iterator std::equal idiom and demands the length guard in front of it.',
    'C18': 'R18.2 every make_quaint overload creates what it owns (no adopting overload).',
    'C20': 'R20.1 no std::forward of a by-value member in a re-callable member function.',
}

ADDENDA9 = {
    'C01': 'R01.15 (= R18.4) a copied token keeps its =value, also when copied onto itself.',
    'C02': 'R13.1 re-evaluated as part of R02.7 (a refused re-declaration leaves no ghost option that swallows the value).',
    'C03': 'R03.10 the environment is consulted on every path where the option was not given and a variable is bound; R03.11 who-may-call: env::get / parse_env_value only from the check() functions.',
    'C04': 'format strings inside catch handlers on the parse path are literals too; R14.4 re-evaluated as part of R04.5.',
    'C06': 'R06.13 fresh storage is assigned to data_ only where size_ == 0.',
    'C07': 'R07.10 rvalue-reference parameters are only consumed (no swap / assignment into the source).',
    'C10': 'R10.2 the discarding operator<< does not copy its operand.',
    'C11': 'R03.11 re-evaluated as part of R11.8.',
    'C12': 'R12.17 (= R13.4) the consistency check refuses nothing but duplicate letters.',
    'C13': 'R13.2 every lookup in has_option_with_name asks for the declared name; R13.4 raises only on a failed letter insertion.',
    'C15': 'R15.4 the environment hint is shown whenever a variable is bound; R13.3 re-evaluated as part of R15.8.',
    'C17': 'R17.1 a rejection of the empty needle in front of a loop does not hold inside it when the loop writes through a reference parameter of the same type (may-alias).',
    'C20': 'R20.5 no adaptor function that runs the wrapped iterator\'s operations is noexcept.',
}

ADDENDA10 = {'C01': "Scope-wide rules over the property's source files (rules/general12.py, every configuration): S1 no function reads a dynamically initialised namespace-scope object / static data member (static initialisation order; default arguments included); S2 errno is cleared before it is read; S3/S4 class layout and state-changing effects are the same with and without NDEBUG; S5 hand-written copy / move operations take over every member; S7 a plain char is never sign-extended into a wider unsigned type.", 'C02': "Scope-wide rules over the property's source files (rules/general12.py, every configuration): S1 no function reads a dynamically initialised namespace-scope object / static data member (static initialisation order; default arguments included); S2 errno is cleared before it is read; S3/S4 class layout and state-changing effects are the same with and without NDEBUG; S5 hand-written copy / move operations take over every member; S7 a plain char is never sign-extended into a wider unsigned type. S6 overload-resolution probe: as<T>(name, 1) selects the element accessor.", 'C03': "Scope-wide rules over the property's source files (rules/general12.py, every configuration): S1 no function reads a dynamically initialised namespace-scope object / static data member (static initialisation order; default arguments included); S2 errno is cleared before it is read; S3/S4 class layout and state-changing effects are the same with and without NDEBUG; S5 hand-written copy / move operations take over every member; S7 a plain char is never sign-extended into a wider unsigned type. S6 overload-resolution probe: a default that converts to std::string selects default_value(const std::string&).", 'C04': "Scope-wide rules over the property's source files (rules/general12.py, every configuration): S1 no function reads a dynamically initialised namespace-scope object / static data member (static initialisation order; default arguments included); S2 errno is cleared before it is read; S3/S4 class layout and state-changing effects are the same with and without NDEBUG; S5 hand-written copy / move operations take over every member; S7 a plain char is never sign-extended into a wider unsigned type.", 'C05': "Scope-wide rules over the property's source files (rules/general12.py, every configuration): S1 no function reads a dynamically initialised namespace-scope object / static data member (static initialisation order; default arguments included); S2 errno is cleared before it is read; S3/S4 class layout and state-changing effects are the same with and without NDEBUG; S5 hand-written copy / move operations take over every member; S7 a plain char is never sign-extended into a wider unsigned type. R05.5 includes the include-order witness (R10.6); R05.6 the fan-out walks the member sinks in place (tuple and visitor bound by reference).", 'C06': "Scope-wide rules over the property's source files (rules/general12.py, every configuration): S1 no function reads a dynamically initialised namespace-scope object / static data member (static initialisation order; default arguments included); S2 errno is cleared before it is read; S3/S4 class layout and state-changing effects are the same with and without NDEBUG; S5 hand-written copy / move operations take over every member; S7 a plain char is never sign-extended into a wider unsigned type. R06.14 (= R07.11) temporaries of the assignment operators in every instantiation; R06.15 type-level witnesses: size_type holds every std::size_t.", 'C07': "Scope-wide rules over the property's source files (rules/general12.py, every configuration): S1 no function reads a dynamically initialised namespace-scope object / static data member (static initialisation order; default arguments included); S2 errno is cleared before it is read; S3/S4 class layout and state-changing effects are the same with and without NDEBUG; S5 hand-written copy / move operations take over every member; S7 a plain char is never sign-extended into a wider unsigned type. R07.11 in every instantiation (incl. an element type constructible from anything) the assignment operators build their temporary with the copy / move / (capacity, list) constructor.", 'C08': "Scope-wide rules over the property's source files (rules/general12.py, every configuration): S1 no function reads a dynamically initialised namespace-scope object / static data member (static initialisation order; default arguments included); S2 errno is cleared before it is read; S3/S4 class layout and state-changing effects are the same with and without NDEBUG; S5 hand-written copy / move operations take over every member; S7 a plain char is never sign-extended into a wider unsigned type.", 'C09': "Scope-wide rules over the property's source files (rules/general12.py, every configuration): S1 no function reads a dynamically initialised namespace-scope object / static data member (static initialisation order; default arguments included); S2 errno is cleared before it is read; S3/S4 class layout and state-changing effects are the same with and without NDEBUG; S5 hand-written copy / move operations take over every member; S7 a plain char is never sign-extended into a wider unsigned type. R09.1 the scoped lock is not declared inside a loop (one acquisition per record).", 'C10': "Scope-wide rules over the property's source files (rules/general12.py, every configuration): S1 no function reads a dynamically initialised namespace-scope object / static data member (static initialisation order; default arguments included); S2 errno is cleared before it is read; S3/S4 class layout and state-changing effects are the same with and without NDEBUG; S5 hand-written copy / move operations take over every member; S7 a plain char is never sign-extended into a wider unsigned type. R10.6 include-order witness: the minimum (re)defined just before log.hpp is the one in force.", 'C11': "Scope-wide rules over the property's source files (rules/general12.py, every configuration): S1 no function reads a dynamically initialised namespace-scope object / static data member (static initialisation order; default arguments included); S2 errno is cleared before it is read; S3/S4 class layout and state-changing effects are the same with and without NDEBUG; S5 hand-written copy / move operations take over every member; S7 a plain char is never sign-extended into a wider unsigned type.", 'C12': "Scope-wide rules over the property's source files (rules/general12.py, every configuration): S1 no function reads a dynamically initialised namespace-scope object / static data member (static initialisation order; default arguments included); S2 errno is cleared before it is read; S3/S4 class layout and state-changing effects are the same with and without NDEBUG; S5 hand-written copy / move operations take over every member; S7 a plain char is never sign-extended into a wider unsigned type.", 'C13': "Scope-wide rules over the property's source files (rules/general12.py, every configuration): S1 no function reads a dynamically initialised namespace-scope object / static data member (static initialisation order; default arguments included); S2 errno is cleared before it is read; S3/S4 class layout and state-changing effects are the same with and without NDEBUG; S5 hand-written copy / move operations take over every member; S7 a plain char is never sign-extended into a wider unsigned type.", 'C14': "Scope-wide rules over the property's source files (rules/general12.py, every configuration): S1 no function reads a dynamically initialised namespace-scope object / static data member (static initialisation order; default arguments included); S2 errno is cleared before it is read; S3/S4 class layout and state-changing effects are the same with and without NDEBUG; S5 hand-written copy / move operations take over every member; S7 a plain char is never sign-extended into a wider unsigned type.", 'C15': "Scope-wide rules over the property's source files (rules/general12.py, every configuration): S1 no function reads a dynamically initialised namespace-scope object / static data member (static initialisation order; default arguments included); S2 errno is cleared before it is read; S3/S4 class layout and state-changing effects are the same with and without NDEBUG; S5 hand-written copy / move operations take over every member; S7 a plain char is never sign-extended into a wider unsigned type.", 'C16': "Scope-wide rules over the property's source files (rules/general12.py, every configuration): S1 no function reads a dynamically initialised namespace-scope object / static data member (static initialisation order; default arguments included); S2 errno is cleared before it is read; S3/S4 class layout and state-changing effects are the same with and without NDEBUG; S5 hand-written copy / move operations take over every member; S7 a plain char is never sign-extended into a wider unsigned type.", 'C17': "Scope-wide rules over the property's source files (rules/general12.py, every configuration): S1 no function reads a dynamically initialised namespace-scope object / static data member (static initialisation order; default arguments included); S2 errno is cleared before it is read; S3/S4 class layout and state-changing effects are the same with and without NDEBUG; S5 hand-written copy / move operations take over every member; S7 a plain char is never sign-extended into a wider unsigned type.", 'C18': "Scope-wide rules over the property's source files (rules/general12.py, every configuration): S1 no function reads a dynamically initialised namespace-scope object / static data member (static initialisation order; default arguments included); S2 errno is cleared before it is read; S3/S4 class layout and state-changing effects are the same with and without NDEBUG; S5 hand-written copy / move operations take over every member; S7 a plain char is never sign-extended into a wider unsigned type. R18.10 optional's copies create the payload from a const lvalue.", 'C19': "Scope-wide rules over the property's source files (rules/general12.py, every configuration): S1 no function reads a dynamically initialised namespace-scope object / static data member (static initialisation order; default arguments included); S2 errno is cleared before it is read; S3/S4 class layout and state-changing effects are the same with and without NDEBUG; S5 hand-written copy / move operations take over every member; S7 a plain char is never sign-extended into a wider unsigned type. R19.10 every construction of dl::exception selects a constructor that stores the diagnostic.", 'C20': "Scope-wide rules over the property's source files (rules/general12.py, every configuration): S1 no function reads a dynamically initialised namespace-scope object / static data member (static initialisation order; default arguments included); S2 errno is cleared before it is read; S3/S4 class layout and state-changing effects are the same with and without NDEBUG; S5 hand-written copy / move operations take over every member; S7 a plain char is never sign-extended into a wider unsigned type. R20.6 enumerate() / reverse() take their range by reference, never by value."}

ADDENDA11 = {'C01': 'S8 the parse result owns what it reports (no pointer / reference into parser-owned containers); R01.16 (= R12.10) every entry point tokenises every element of its range.',
    'C12': 'S8 the parse result owns what it reports.',
    'C14': 'S8 the parse result owns what it reports: a later parse() cannot rewrite an earlier result.',
    'C13': 'R13.11 a group constructed into X.groups_ is handed X as its parser.',
    'C07': 'R07.11 is also asked of g++ (witness/tl_C07_gxx.cpp): clang and g++ disagree on `T tmp{ v }` for element types constructible from anything.',
    'C05': 'R05.11 lazy-message probes: a printable function object with a non-const call operator is invoked by the selected operator<< in both statement forms.',
    'C08': 'R08.8 a std fold in the format code starts from a value as wide as std::size_t.',
    'C16': 'R16.8 no hash() overload casts its argument into a fixed arithmetic type.',
    'C15': 'S6 overload-resolution probe: a default that converts to std::string selects default_value(const std::string&) (what the usage text lists).'}

TECH = {
    "C02": "verbatim value-flow (carrier) analysis + must-facts on the value/next-token selection + token-syntax language inclusion (regex-literal automata, or finite-domain abstract interpretation of a hand-written character check)",
    "C04": "context-sensitive must-facts dataflow over the call graph below parse() + truth-table entailment of guard preconditions + call-graph effect rules (regex subjects, recursion, catch-handler outcomes) + finite-domain abstract interpretation of the token syntax check",
    "C08": "taint-style subject analysis of searches + regex-literal language equality + must-facts on the arity guards + abstract interpretation of the text-assembling loop over symbolic positions",
    "C09": "lock-scope must-dataflow over the CFG + storage/linkage rules for the mutex + acquire-loop typestate check for hand-written lockables + who-may-touch call-graph rule",
    "C12": "iteration-path enumeration of the token loop under must-facts + carrier analysis + index-normalisation facts + type-level witnesses (detection idiom over the parse overload set) + CFG must-pass rule on the argv loops",
    "C20": "type-level matrix (static_assert) + role-based structural rules on the adaptor patterns (roles derived from constructors) + storage scan + shared iterator-bound rule",
}


def main():
    for k, v in ADDENDA.items():
        CLAIMS[k]["text"] = CLAIMS[k]["text"].rstrip() + " " + v
    for k, v in ADDENDA2.items():
        CLAIMS[k]["text"] = CLAIMS[k]["text"].rstrip() + " " + v
    for k, v in ADDENDA3.items():
        CLAIMS[k]["text"] = CLAIMS[k]["text"].rstrip() + " " + v
    for k, v in ADDENDA4.items():
        CLAIMS[k]["text"] = CLAIMS[k]["text"].rstrip() + " " + v
    for k, v in ADDENDA5.items():
        CLAIMS[k]["text"] = CLAIMS[k]["text"].rstrip() + " " + v
    for k, v in ADDENDA6.items():
        CLAIMS[k]["text"] = CLAIMS[k]["text"].rstrip() + " " + v
    for k, v in ADDENDA7.items():
        CLAIMS[k]["text"] = CLAIMS[k]["text"].rstrip() + " " + v
    for k, v in ADDENDA8.items():
        CLAIMS[k]["text"] = CLAIMS[k]["text"].rstrip() + " " + v
    for k, v in ADDENDA9.items():
        CLAIMS[k]["text"] = CLAIMS[k]["text"].rstrip() + " " + v
    for k, v in ADDENDA10.items():
        CLAIMS[k]["text"] = CLAIMS[k]["text"].rstrip() + " " + v
    for k, v in ADDENDA11.items():
        CLAIMS[k]["text"] = CLAIMS[k]["text"].rstrip() + " " + v
    for k, v in TECH.items():
        CLAIMS[k]["technique"] = v
    props = [json.loads(l) for l in open(os.path.join(HERE, "properties.jsonl"))]
    na_reasons = {}
    p = os.path.join(HERE, "tools", "not_applicable.json")
    if os.path.exists(p):
        na_reasons = json.load(open(p))
    checks = []
    na = []
    for pr in props:
        pid = pr["id"]
        c = CLAIMS.get(pid)
        if c and os.path.exists(os.path.join(HERE, "rules", pid + ".py")):
            checks.append({
                "property_id": pid,
                "quick_cmd": "./check %s --tier quick" % pid,
                "thorough_cmd": "./check %s --tier thorough" % pid,
                "evidence_file": "evidence/%s.json" % pid,
                "replay_cmd_template": "./check %s --replay {path}" % pid,
                "engine": "nitro-facts + sa",
                "level_claimed": {"category": "other", "text": c["text"], "design_ref": "DESIGN.md section " + c["ref"]},
                "level_note": NOTE,
                "technique": c["technique"],
            })
        else:
            na.append({"property_id": pid, "reason": na_reasons.get(
                pid, "check not finished in this session (static rules designed in DESIGN.md section 5); not claimed until it is silent on the unchanged tree")})
    m = {
        "version": 1,
        "setup_cmd": "sh tools/build.sh",
        "hooks": {"guard": "NITRO_VERIF",
                  "enable": "no hooks needed: the analyses read /repo's sources through clang (private members and template bodies are visible in the AST)",
                  "baseline_off_cmd": "sh tools/baseline.sh", "source_commits": [], "add_only": True},
        "engines": [{"name": "nitro-facts + sa", "path": "tools/nitro-facts.cc sa/ rules/ witness/",
                     "serves_properties": [c["property_id"] for c in checks],
                     "kind_free_text": "custom static analysis: LibTooling fact extractor (resolved AST + per-function CFG), Python dataflow / "
                                       "call-graph / typestate / zone / regex-language rules, compiler-checked type-level witnesses"}],
        "checks": checks,
        "not_applicable": na,
        "notes": "static analysis only; exit 0 = obligations discharged (KNOWN-FINDING lines allowed), exit 1 = VIOLATION, exit 2 = analysis broken. See DESIGN.md.",
    }
    json.dump(m, open(os.path.join(HERE, "MANIFEST.json"), "w"), indent=1)
    print("claimed:", [c["property_id"] for c in checks])


if __name__ == "__main__":
    main()
