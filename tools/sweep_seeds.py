#!/usr/bin/env python3
"""Apply every seeded change to /repo in turn, run the checks, undo it; tabulate which checks report it.
usage: tools/sweep_seeds.py [--all-checks] [seed ...]   -> writes seeded/SWEEP.json and prints a table"""
import json
import os
import subprocess
import sys

HERE = os.path.dirname(os.path.dirname(os.path.abspath(__file__)))
REPO = "/repo"


def sh(cmd, **kw):
    return subprocess.run(cmd, shell=True, stdout=subprocess.PIPE, stderr=subprocess.STDOUT, text=True, **kw)


def main():
    args = [a for a in sys.argv[1:] if not a.startswith("--")]
    all_checks = "--all-checks" in sys.argv
    seeds = args or sorted(os.listdir(os.path.join(HERE, "seeded")))
    seeds = [s for s in seeds if os.path.isdir(os.path.join(HERE, "seeded", s))]
    props = sorted(f[:-3] for f in os.listdir(os.path.join(HERE, "rules")) if f.startswith("C") and f.endswith(".py"))
    if sh("git -C %s status --porcelain --untracked-files=no" % REPO).stdout.strip():
        print("repo dirty")
        return 2
    out = {}
    for s in seeds:
        d = os.path.join(HERE, "seeded", s)
        try:
            meta = json.load(open(os.path.join(d, "meta.json")))
        except (OSError, ValueError):
            meta = {}
        if meta.get("status") == "declined":
            out[s] = {"applied": False, "declined": meta.get("declined_because", "")}
            print("%-7s DECLINED" % s)
            continue
        if meta.get("status") == "obsolete":
            out[s] = {"applied": False, "obsolete": meta.get("obsolete_because", "")}
            print("%-7s OBSOLETE" % s)
            continue
        patch = os.path.join(d, "patch.rebased.diff") if os.path.exists(os.path.join(d, "patch.rebased.diff")) else os.path.join(d, "patch.diff")
        r = sh("git -C %s apply %s" % (REPO, patch))
        if r.returncode != 0:
            out[s] = {"applied": False, "patch": os.path.basename(patch)}
            sh("git -C %s reset -q --hard HEAD" % REPO)
            print("%-7s DOES NOT APPLY (%s)" % (s, os.path.basename(patch)))
            continue
        own = s.split("-")[0]
        res = {}
        for p in (props if all_checks else [own]):
            rr = sh("./check %s" % p, cwd=HERE)
            nv = rr.stdout.count("VIOLATION property=")
            nb = rr.stdout.count("ANALYSIS-BROKEN")
            res[p] = {"exit": rr.returncode, "violations": nv, "broken": nb,
                      "first": [l[:300] for l in rr.stdout.splitlines() if ": R" in l and not l.startswith("VIOLATION")][:3]}
        sh("git -C %s checkout -q -- ." % REPO)
        sh("git -C %s clean -fdq -e _build" % REPO)
        out[s] = {"applied": True, "patch": os.path.basename(patch), "results": res}
        hit = [p for p, v in res.items() if v["exit"] == 1]
        brk = [p for p, v in res.items() if v["exit"] == 2]
        print("%-7s own=%s  detected_by=%s  broken=%s" % (s, {1: "VIOLATION", 0: "missed", 2: "broken"}[res[own]["exit"]], ",".join(hit) or "-", ",".join(brk) or "-"))
    path = os.path.join(HERE, "seeded", "SWEEP.json")
    merged = {}
    if os.path.exists(path) and args:
        try:
            merged = json.load(open(path))
        except ValueError:
            merged = {}
    for k, v in out.items():
        if all_checks or k not in merged or not merged[k].get("results") or len(merged[k]["results"]) <= 1:
            merged[k] = v
        else:
            merged[k]["results"].update(v.get("results", {}))
    json.dump(merged, open(path, "w"), indent=1, sort_keys=True)
    return 0


if __name__ == "__main__":
    sys.exit(main())
