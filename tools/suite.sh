#!/bin/sh
# build /repo's current working tree in a scratch dir, run ctest, print the summary; scratch dir removed
T=$(mktemp -d /tmp/nitro-suite-XXXXXX)
trap 'rm -rf "$T"' EXIT
cmake -G Ninja -S /repo -B "$T" >/dev/null 2>&1 && cmake --build "$T" 2>&1 | grep -E "error|FAILED" | head -20
ctest --test-dir "$T" -j8 --timeout 900 2>&1 | tail -8
if [ -n "$1" ]; then cp "$T"/libnitro-options.a "$T"/libnitro-env.a "$1"/ 2>/dev/null; fi
