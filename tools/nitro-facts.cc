// nitro-facts: rule-free fact extractor for the /verif static analyses.
//
// For every function *defined* in one of the --root directories (free functions,
// methods, constructors, destructors, lambdas, template patterns and every
// instantiation present in the unit) it writes: identity, flags, the clang CFG
// (all sub-expressions added, implicit destructors and initialisers on, no EH
// edges) with, per block, the *root* expressions as resolved trees.  Per class
// in the roots: fields, bases, special members, virtual methods.
//
// usage: nitro-facts --root DIR [--root DIR...] -o OUT.json SOURCE -- <compiler flags>
//
// It contains no rule of any property; rules live in /verif/sa and /verif/rules.

#include "clang/AST/ASTConsumer.h"
#include "clang/AST/ASTContext.h"
#include "clang/AST/DeclCXX.h"
#include "clang/AST/DeclTemplate.h"
#include "clang/AST/ExprCXX.h"
#include "clang/AST/RecursiveASTVisitor.h"
#include "clang/Analysis/CFG.h"
#include "clang/Frontend/CompilerInstance.h"
#include "clang/Frontend/FrontendAction.h"
#include "clang/Lex/Lexer.h"
#include "clang/Tooling/CompilationDatabase.h"
#include "clang/Tooling/Tooling.h"
#include "llvm/Support/JSON.h"
#include "llvm/Support/raw_ostream.h"

#include <map>
#include <set>
#include <string>
#include <vector>

using namespace clang;
namespace json = llvm::json;

static std::vector<std::string> g_roots;
static std::string g_out;

namespace
{

class Extractor
{
public:
    Extractor(ASTContext& ctx) : ctx(ctx), sm(ctx.getSourceManager()), pp(ctx.getLangOpts())
    {
        pp.SuppressTagKeyword = true;
        pp.Bool = true;
        pp.SuppressUnwrittenScope = false;
    }

    ASTContext& ctx;
    bool inConstInit = false;
    SourceManager& sm;
    PrintingPolicy pp;

    std::set<const FunctionDecl*> seenFns;
    std::vector<const FunctionDecl*> work;
    std::set<const CXXRecordDecl*> seenClasses;
    json::Array functions;
    json::Array classes;
    std::map<const FunctionDecl*, std::vector<std::string>> reachMemo;
    std::set<const FunctionDecl*> reachBusy;
    std::map<const FunctionDecl*, std::string> idMemo;

    // ---------------------------------------------------------------- helpers

    std::string fileOf(SourceLocation l)
    {
        if (l.isInvalid())
            return "";
        l = sm.getExpansionLoc(l);
        auto fn = sm.getFilename(l);
        if (fn.empty())
            return "";
        llvm::SmallString<256> p(fn);
        sm.getFileManager().makeAbsolutePath(p);
        llvm::sys::path::remove_dots(p, true);
        return std::string(p.str());
    }

    unsigned lineOf(SourceLocation l)
    {
        if (l.isInvalid())
            return 0;
        return sm.getExpansionLineNumber(l);
    }

    unsigned colOf(SourceLocation l)
    {
        if (l.isInvalid())
            return 0;
        return sm.getExpansionColumnNumber(l);
    }

    bool inRoots(SourceLocation l)
    {
        auto f = fileOf(l);
        if (f.empty())
            return false;
        for (auto& r : g_roots)
            if (f.compare(0, r.size(), r) == 0)
                return true;
        return false;
    }

    bool inRoots(const Decl* d)
    {
        return inRoots(d->getLocation());
    }

    std::string ty(QualType t)
    {
        if (t.isNull())
            return "?";
        return t.getAsString(pp);
    }

    std::string text(const Stmt* s, unsigned max = 200)
    {
        if (!s)
            return "";
        auto r = CharSourceRange::getTokenRange(s->getSourceRange());
        if (r.isInvalid())
            return "";
        auto t = Lexer::getSourceText(sm.getExpansionRange(r), sm, ctx.getLangOpts()).str();
        std::string o;
        bool sp = false;
        for (char c : t)
        {
            if (c == '\n' || c == '\t' || c == ' ' || c == '\r')
            {
                if (!sp)
                    o += ' ';
                sp = true;
            }
            else
            {
                o += c;
                sp = false;
            }
            if (o.size() >= max)
            {
                o += "...";
                break;
            }
        }
        return o;
    }

    std::string targs(const TemplateArgumentList* l)
    {
        if (!l)
            return "";
        std::string s;
        llvm::raw_string_ostream os(s);
        bool first = true;
        for (auto& a : l->asArray())
        {
            if (!first)
                os << ", ";
            first = false;
            a.print(pp, os, true);
        }
        return os.str();
    }

    const FunctionDecl* enclosingFunction(const DeclContext* dc)
    {
        while (dc)
        {
            if (auto* fd = dyn_cast<FunctionDecl>(dc))
                return fd;
            dc = dc->getParent();
        }
        return nullptr;
    }

    std::string qualName(const NamedDecl* d)
    {
        std::string s;
        llvm::raw_string_ostream os(s);
        d->printQualifiedName(os, pp);
        return os.str();
    }

    std::string className(const CXXRecordDecl* rd)
    {
        std::string n = qualName(rd);
        if (auto* sp = dyn_cast<ClassTemplateSpecializationDecl>(rd))
            n += "<" + targs(&sp->getTemplateArgs()) + ">";
        return n;
    }

    std::string fnId(const FunctionDecl* fd)
    {
        if (!fd)
            return "";
        auto it = idMemo.find(fd);
        if (it != idMemo.end())
            return it->second;
        std::string base;
        auto* md = dyn_cast<CXXMethodDecl>(fd);
        if (md && md->getParent()->isLambda())
        {
            auto* cls = md->getParent();
            auto* parent = enclosingFunction(cls->getDeclContext());
            std::string pid = parent ? fnId(parent) : std::string("<namespace>");
            int rel = 0;
            if (parent)
                rel = (int)lineOf(cls->getLocation()) - (int)lineOf(parent->getLocation());
            base = pid + "::<lambda+" + std::to_string(rel) + ":" +
                   std::to_string(colOf(cls->getLocation())) + ">";
            if (!isa<CXXConversionDecl>(fd) && fd->getOverloadedOperator() != OO_Call)
                base += "::" + fd->getNameAsString();
        }
        else
        {
            base = qualName(fd);
        }
        std::string s = base + "(";
        bool first = true;
        for (auto* p : fd->parameters())
        {
            if (!first)
                s += ", ";
            first = false;
            s += ty(p->getType());
        }
        if (fd->isVariadic())
            s += first ? "..." : ", ...";
        s += ")";
        if (md && md->isConst())
            s += " const";
        if (md && md->getRefQualifier() == RQ_RValue)
            s += " &&";
        if (auto* a = fd->getTemplateSpecializationArgs())
            s += "#<" + targs(a) + ">";
        else if (fd->getDescribedFunctionTemplate())
            s += " -> " + ty(fd->getReturnType());
        idMemo[fd] = s;
        return s;
    }

    const FunctionDecl* definitionOf(const FunctionDecl* fd)
    {
        if (!fd)
            return nullptr;
        const FunctionDecl* def = nullptr;
        if (fd->hasBody(def))
            return def;
        // member of a class template specialisation that has a pattern with body but
        // was not instantiated: nothing to analyse
        return nullptr;
    }

    void enqueue(const FunctionDecl* fd)
    {
        auto* def = definitionOf(fd);
        if (!def)
            return;
        if (!inRoots(def))
            return;
        if (def->isDeleted())
            return;
        if (seenFns.insert(def).second)
            work.push_back(def);
    }

    // ------------------------------------------------- std pass-through reach

    struct ReachVisitor : RecursiveASTVisitor<ReachVisitor>
    {
        std::vector<const FunctionDecl*> callees;
        bool shouldVisitImplicitCode() const
        {
            return true;
        }
        bool VisitCallExpr(CallExpr* c)
        {
            if (auto* fd = c->getDirectCallee())
                callees.push_back(fd);
            return true;
        }
        bool VisitCXXConstructExpr(CXXConstructExpr* c)
        {
            callees.push_back(c->getConstructor());
            return true;
        }
        bool VisitCXXDeleteExpr(CXXDeleteExpr* d)
        {
            auto t = d->getDestroyedType();
            if (!t.isNull())
                if (auto* rd = t->getAsCXXRecordDecl())
                    if (auto* dt = rd->getDestructor())
                        callees.push_back(dt);
            return true;
        }
        bool TraverseLambdaExpr(LambdaExpr*)
        {
            return true; // bodies of lambdas are not executed here
        }
    };

    const std::vector<std::string>& reach(const FunctionDecl* fd, int depth = 0)
    {
        static const std::vector<std::string> empty;
        auto* def = definitionOf(fd);
        if (!def)
            return empty;
        auto it = reachMemo.find(def);
        if (it != reachMemo.end())
            return it->second;
        if (depth > 24 || reachBusy.count(def))
            return empty;
        reachBusy.insert(def);
        std::set<std::string> out;
        ReachVisitor v;
        v.TraverseStmt(def->getBody());
        if (auto* cd = dyn_cast<CXXConstructorDecl>(def))
            for (auto* init : cd->inits())
                v.TraverseStmt(init->getInit());
        for (auto* c : v.callees)
        {
            auto* cdef = definitionOf(c);
            if (cdef && inRoots(cdef))
            {
                enqueue(cdef);
                out.insert(fnId(cdef));
            }
            else if (!cdef && inRoots(c))
            {
                out.insert(fnId(c));
            }
            else if (cdef)
            {
                for (auto& s : reach(cdef, depth + 1))
                    out.insert(s);
            }
        }
        reachBusy.erase(def);
        auto& slot = reachMemo[def];
        slot.assign(out.begin(), out.end());
        return slot;
    }

    json::Array reachJson(const FunctionDecl* fd)
    {
        json::Array a;
        if (!fd)
            return a;
        auto* def = definitionOf(fd);
        if (def && inRoots(def))
            return a; // direct edge, no pass-through needed
        for (auto& s : reach(fd))
            a.push_back(s);
        return a;
    }

    // ------------------------------------------------------------ expressions

    static const Expr* strip(const Expr* e)
    {
        while (e)
        {
            if (auto* p = dyn_cast<ParenExpr>(e))
                e = p->getSubExpr();
            else if (auto* c = dyn_cast<ExprWithCleanups>(e))
                e = c->getSubExpr();
            else if (auto* m = dyn_cast<MaterializeTemporaryExpr>(e))
                e = m->getSubExpr();
            else if (auto* b = dyn_cast<CXXBindTemporaryExpr>(e))
                e = b->getSubExpr();
            else if (auto* ce = dyn_cast<ConstantExpr>(e))
                e = ce->getSubExpr();
            else if (auto* s = dyn_cast<SubstNonTypeTemplateParmExpr>(e))
                e = s->getReplacement();
            else if (auto* ic = dyn_cast<ImplicitCastExpr>(e))
                e = ic->getSubExpr();
            else
                break;
        }
        return e;
    }

    void typeFlags(json::Object& o, QualType t)
    {
        if (t.isNull())
            return;
        o["type"] = ty(t);
        QualType c = t.getCanonicalType().getNonReferenceType();
        if (c->isDependentType())
            return;
        if (c->isUnsignedIntegerType() && !c->isBooleanType())
            o["u"] = true;
        if (c->isIntegerType() && !c->isBooleanType() && !c->isEnumeralType())
            o["bits"] = (int64_t)ctx.getTypeSize(c);
    }

    // T&& / Args&&... where T is a template parameter of the function template itself (a forwarding reference)
    static bool isForwardingRef(const FunctionDecl* fd, QualType t)
    {
        if (auto* pe = t->getAs<PackExpansionType>())
            t = pe->getPattern();
        auto* rr = t->getAs<RValueReferenceType>();
        if (!rr)
            return false;
        QualType pt = rr->getPointeeType();
        if (pt.hasQualifiers())
            return false;
        auto* tp = pt->getAs<TemplateTypeParmType>();
        if (!tp)
            return false;
        const FunctionTemplateDecl* ftd = fd->getDescribedFunctionTemplate();
        if (!ftd)
            if (auto* prim = fd->getPrimaryTemplate())
                ftd = prim;
        if (!ftd)
            return false;
        return tp->getDepth() == ftd->getTemplateParameters()->getDepth();
    }

    std::string declKey(const ValueDecl* d, QualType& outTy)
    {
        outTy = d->getType();
        if (auto* pv = dyn_cast<ParmVarDecl>(d))
            return "param:" + pv->getNameAsString();
        if (auto* vd = dyn_cast<VarDecl>(d))
        {
            if (vd->isStaticLocal())
                return "static:" + qualName(vd);
            if (vd->isLocalVarDecl())
                return "local:" + vd->getNameAsString();
            if (vd->isStaticDataMember())
                return "static:" + qualName(vd);
            return "global:" + qualName(vd);
        }
        if (auto* fd = dyn_cast<FunctionDecl>(d))
        {
            enqueue(fd);
            return "fn:" + fnId(fd);
        }
        if (isa<EnumConstantDecl>(d))
            return "enum:" + qualName(d);
        if (isa<FieldDecl>(d))
            return "field:" + qualName(d);
        if (isa<NonTypeTemplateParmDecl>(d))
            return "tparam:" + d->getNameAsString();
        if (auto* bd = dyn_cast<BindingDecl>(d))
            return "local:" + bd->getNameAsString();
        return "decl:" + qualName(d);
    }

    json::Value J(const Stmt* s)
    {
        if (!s)
            return nullptr;
        if (auto* e = dyn_cast<Expr>(s))
            return JE(e);
        json::Object o;
        if (auto* ds = dyn_cast<DeclStmt>(s))
        {
            o["k"] = "decl";
            json::Array vars;
            for (auto* d : ds->decls())
            {
                if (auto* vd = dyn_cast<VarDecl>(d))
                {
                    json::Object v;
                    v["name"] = vd->getNameAsString();
                    typeFlags(v, vd->getType());
                    if (vd->isStaticLocal())
                    {
                        v["static"] = true;
                        v["qual"] = qualName(vd);
                        if (vd->getTLSKind() != VarDecl::TLS_None)
                            v["thread_local"] = true;
                    }
                    if (vd->getType()->isReferenceType())
                        v["ref"] = true;
                    v["init"] = vd->hasInit() ? JE(vd->getInit()) : json::Value(nullptr);
                    if (auto* dd = dyn_cast<DecompositionDecl>(vd))
                    {
                        json::Array bs;
                        for (auto* b : dd->bindings())
                            bs.push_back(b->getNameAsString());
                        v["bindings"] = std::move(bs);
                    }
                    vars.push_back(std::move(v));
                }
            }
            o["vars"] = std::move(vars);
            o["ln"] = lineOf(s->getBeginLoc());
            return o;
        }
        if (auto* rs = dyn_cast<ReturnStmt>(s))
        {
            o["k"] = "return";
            o["e"] = rs->getRetValue() ? JE(rs->getRetValue()) : json::Value(nullptr);
            o["ln"] = lineOf(s->getBeginLoc());
            return o;
        }
        if (auto* cs = dyn_cast<CXXCatchStmt>(s))
        {
            // the head of a handler: what it catches ("..." for catch-all), the name it binds
            o["k"] = "catch";
            QualType ct = cs->getCaughtType();
            o["type"] = ct.isNull() ? std::string("...") : ct.getNonReferenceType().getUnqualifiedType().getAsString(pp);
            if (auto* ed = cs->getExceptionDecl())
                o["var"] = ed->getNameAsString();
            o["ln"] = lineOf(s->getBeginLoc());
            o["endln"] = lineOf(s->getEndLoc());
            return o;
        }
        o["k"] = "other";
        o["cls"] = s->getStmtClassName();
        o["ln"] = lineOf(s->getBeginLoc());
        return o;
    }

    json::Array JArgs(llvm::ArrayRef<const Expr*> args)
    {
        json::Array a;
        for (auto* x : args)
        {
            if (x && isa<CXXDefaultArgExpr>(x))
            {
                json::Object d;
                d["k"] = "defarg";
                d["e"] = JE(cast<CXXDefaultArgExpr>(x)->getExpr());
                a.push_back(std::move(d));
            }
            else
                a.push_back(JE(x));
        }
        return a;
    }

    std::string unresolvedName(const Expr* callee, const Expr*& base)
    {
        base = nullptr;
        callee = strip(callee);
        if (auto* ul = dyn_cast<UnresolvedLookupExpr>(callee))
        {
            std::string q;
            if (auto* nns = ul->getQualifier())
            {
                llvm::raw_string_ostream os(q);
                nns->print(os, pp);
            }
            return q + ul->getName().getAsString();
        }
        if (auto* um = dyn_cast<UnresolvedMemberExpr>(callee))
        {
            if (!um->isImplicitAccess())
                base = um->getBase();
            std::string q;
            if (auto* nns = um->getQualifier())
            {
                llvm::raw_string_ostream os(q);
                nns->print(os, pp);
            }
            return q + um->getMemberName().getAsString();
        }
        if (auto* dm = dyn_cast<CXXDependentScopeMemberExpr>(callee))
        {
            if (!dm->isImplicitAccess())
                base = dm->getBase();
            std::string q;
            if (auto* nns = dm->getQualifier())
            {
                llvm::raw_string_ostream os(q);
                nns->print(os, pp);
            }
            return q + dm->getMember().getAsString();
        }
        if (auto* dr = dyn_cast<DependentScopeDeclRefExpr>(callee))
        {
            std::string q;
            if (auto* nns = dr->getQualifier())
            {
                llvm::raw_string_ostream os(q);
                nns->print(os, pp);
            }
            return q + dr->getDeclName().getAsString();
        }
        return "";
    }

    json::Value JE(const Expr* e0)
    {
        const Expr* e = strip(e0);
        if (!e)
            return nullptr;
        json::Object o;
        unsigned ln = lineOf(e->getBeginLoc());

        if (auto* d = dyn_cast<CXXDefaultArgExpr>(e))
            return JE(d->getExpr());
        if (auto* d = dyn_cast<CXXDefaultInitExpr>(e))
        {
            o["k"] = "definit";
            o["e"] = JE(d->getExpr());
            return o;
        }
        if (auto* dr = dyn_cast<DeclRefExpr>(e))
        {
            QualType t;
            o["k"] = "ref";
            o["decl"] = declKey(dr->getDecl(), t);
            typeFlags(o, t);
            if (auto* vd = dyn_cast<VarDecl>(dr->getDecl()))
            {
                if (vd->hasGlobalStorage())
                {
                    o["storage"] = vd->isStaticLocal() ?
                                       "static_local" :
                                       (vd->isStaticDataMember() ? "static_member" : "namespace");
                    o["linkage"] = vd->isExternallyVisible() ? "external" : "internal";
                    if (vd->isInline())
                        o["inline"] = true;
                    if (vd->getTLSKind() != VarDecl::TLS_None)
                        o["thread_local"] = true;
                    o["decl_file"] = fileOf(vd->getLocation());
                    // dynamic initialisation (namespace scope / static data member): before the initialisers of its unit have run the
                    // object is only zero-initialised - a function that reads it gives another result when it is called from a static
                    // initialiser of another unit
                    if (!vd->isStaticLocal())
                    {
                        const VarDecl* idef = nullptr;
                        if (const Expr* init = vd->getAnyInitializer(idef))
                        {
                            if (init->isValueDependent() || init->isTypeDependent() || vd->getType()->isDependentType())
                                o["init_kind"] = "dependent";
                            else if (idef && !idef->isInvalidDecl())
                                o["init_kind"] = (idef->isConstexpr() || idef->hasConstantInitialization()) ? "constant" : "dynamic";
                        }
                        else if (!vd->getType()->isDependentType())
                            o["init_kind"] = vd->hasDefinition() || vd->isStaticDataMember() ? "zero" : "extern";
                        else
                            o["init_kind"] = "dependent";
                    }
                    // constant tables: the initialiser of a const global (small literal lists only)
                    if (!inConstInit && ctx.getBaseElementType(vd->getType()).isConstQualified())
                    {
                        const VarDecl* def = nullptr;
                        if (const Expr* init = vd->getAnyInitializer(def))
                        {
                            const Expr* ie = init->IgnoreImplicit();
                            auto* il = dyn_cast<InitListExpr>(ie);
                            if (!init->isValueDependent() &&
                                ((il && il->getNumInits() <= 128) || isa<StringLiteral>(ie) ||
                                 isa<IntegerLiteral>(ie) || isa<CXXBoolLiteralExpr>(ie) ||
                                 isa<CharacterLiteral>(ie)))
                            {
                                inConstInit = true;
                                o["const_init"] = JE(init);
                                inConstInit = false;
                            }
                        }
                    }
                }
            }
            return o;
        }
        if (isa<CXXThisExpr>(e))
        {
            o["k"] = "this";
            return o;
        }
        if (auto* il = dyn_cast<IntegerLiteral>(e))
        {
            o["k"] = "lit";
            o["t"] = "int";
            o["v"] = (int64_t)il->getValue().getLimitedValue();
            return o;
        }
        if (auto* sl = dyn_cast<StringLiteral>(e))
        {
            o["k"] = "lit";
            o["t"] = "str";
            if (sl->getCharByteWidth() == 1)
            {
                // bytes may be non UTF-8; escape as latin-1 code points
                std::string b = sl->getBytes().str();
                std::string u;
                for (unsigned char c : b)
                {
                    if (c < 0x80)
                        u += (char)c;
                    else
                    {
                        u += (char)(0xC0 | (c >> 6));
                        u += (char)(0x80 | (c & 0x3F));
                    }
                }
                o["v"] = u;
            }
            else
            {
                o["v"] = text(sl);
                o["wide"] = true;
            }
            return o;
        }
        if (auto* cl = dyn_cast<CharacterLiteral>(e))
        {
            o["k"] = "lit";
            o["t"] = "char";
            o["v"] = (int64_t)cl->getValue();
            return o;
        }
        if (auto* bl = dyn_cast<CXXBoolLiteralExpr>(e))
        {
            o["k"] = "lit";
            o["t"] = "bool";
            o["v"] = bl->getValue();
            return o;
        }
        if (isa<CXXNullPtrLiteralExpr>(e) || isa<GNUNullExpr>(e))
        {
            o["k"] = "lit";
            o["t"] = "null";
            o["v"] = nullptr;
            return o;
        }
        if (auto* fl = dyn_cast<FloatingLiteral>(e))
        {
            o["k"] = "lit";
            o["t"] = "float";
            o["v"] = fl->getValueAsApproximateDouble();
            return o;
        }
        if (auto* me = dyn_cast<MemberExpr>(e))
        {
            o["k"] = "member";
            o["field"] = qualName(me->getMemberDecl());
            o["base"] = me->isImplicitAccess() ? json::Value(json::Object{ { "k", "this" } }) :
                                                 JE(me->getBase());
            o["arrow"] = me->isArrow();
            if (isa<FunctionDecl>(me->getMemberDecl()))
                o["method"] = true;
            typeFlags(o, me->getType());
            return o;
        }
        if (auto* dm = dyn_cast<CXXDependentScopeMemberExpr>(e))
        {
            o["k"] = "member";
            o["field"] = "?::" + dm->getMember().getAsString();
            o["base"] = dm->isImplicitAccess() ? json::Value(json::Object{ { "k", "this" } }) :
                                                 JE(dm->getBase());
            o["arrow"] = dm->isArrow();
            o["dep"] = true;
            return o;
        }
        if (auto* um = dyn_cast<UnresolvedMemberExpr>(e))
        {
            o["k"] = "member";
            o["field"] = "?::" + um->getMemberName().getAsString();
            o["base"] = um->isImplicitAccess() ? json::Value(json::Object{ { "k", "this" } }) :
                                                 JE(um->getBase());
            o["dep"] = true;
            o["method"] = true;
            return o;
        }
        if (auto* ul = dyn_cast<UnresolvedLookupExpr>(e))
        {
            const Expr* b;
            o["k"] = "ref";
            o["decl"] = "unresolved:" + unresolvedName(ul, b);
            o["dep"] = true;
            return o;
        }
        if (auto* dr = dyn_cast<DependentScopeDeclRefExpr>(e))
        {
            const Expr* b;
            o["k"] = "ref";
            o["decl"] = "unresolved:" + unresolvedName(dr, b);
            o["dep"] = true;
            return o;
        }
        // ---- calls
        if (auto* oc = dyn_cast<CXXOperatorCallExpr>(e))
        {
            auto* fd = oc->getDirectCallee();
            auto op = oc->getOperator();
            std::string spell = getOperatorSpelling(op);
            bool isMember = fd && isa<CXXMethodDecl>(fd) && !cast<CXXMethodDecl>(fd)->isStatic();
            if (op == OO_Subscript && oc->getNumArgs() == 2)
            {
                o["k"] = "subscript";
                o["base"] = JE(oc->getArg(0));
                o["idx"] = JE(oc->getArg(1));
                if (fd)
                {
                    enqueue(fd);
                    o["callee"] = fnId(fd);
                    o["name"] = qualName(fd);
                }
                o["ln"] = ln;
                typeFlags(o, oc->getType());
                return o;
            }
            o["k"] = "call";
            o["op"] = spell;
            if (fd)
            {
                enqueue(fd);
                o["callee"] = fnId(fd);
                o["name"] = qualName(fd);
                auto r = reachJson(fd);
                if (!r.empty())
                    o["reaches"] = std::move(r);
            }
            else
            {
                o["callee"] = nullptr;
                o["name"] = "operator" + spell;
                o["dep"] = true;
            }
            std::vector<const Expr*> args(oc->arg_begin(), oc->arg_end());
            if ((isMember || (!fd && op == OO_Call)) && !args.empty())
            {
                o["this"] = JE(args[0]);
                args.erase(args.begin());
            }
            // postfix ++/-- carry a dummy int argument
            o["args"] = JArgs(args);
            o["nargs_written"] = (int64_t)oc->getNumArgs();
            o["ln"] = ln;
            typeFlags(o, oc->getType());
            return o;
        }
        if (auto* mc = dyn_cast<CXXMemberCallExpr>(e))
        {
            o["k"] = "call";
            auto* md = mc->getMethodDecl();
            const Expr* calleeE = strip(mc->getCallee());
            if (md)
            {
                enqueue(md);
                o["callee"] = fnId(md);
                o["name"] = qualName(md);
                bool qualified = false;
                if (auto* me = dyn_cast<MemberExpr>(calleeE))
                    qualified = me->hasQualifier();
                if (md->isVirtual() && !qualified)
                    o["virtual"] = true;
                if (isa<CXXConversionDecl>(md))
                    o["conv"] = ty(cast<CXXConversionDecl>(md)->getConversionType());
                auto r = reachJson(md);
                if (!r.empty())
                    o["reaches"] = std::move(r);
            }
            else
            {
                o["callee"] = nullptr;
                o["name"] = "?";
                // call through a pointer to member: (obj.*pm)(args) / (ptr->*pm)(args)
                if (auto* bo = dyn_cast<BinaryOperator>(calleeE))
                    if (bo->getOpcode() == BO_PtrMemD || bo->getOpcode() == BO_PtrMemI)
                    {
                        o["fn"] = JE(bo->getRHS());
                        o["ptrmem"] = true;
                    }
            }
            if (auto* me = dyn_cast<MemberExpr>(calleeE))
            {
                o["this"] = me->isImplicitAccess() ? json::Value(json::Object{ { "k", "this" } }) :
                                                     JE(me->getBase());
                o["arrow"] = me->isArrow();
            }
            else if (auto* obj = mc->getImplicitObjectArgument())
                o["this"] = JE(obj);
            std::vector<const Expr*> args(mc->arg_begin(), mc->arg_end());
            o["args"] = JArgs(args);
            o["ln"] = ln;
            typeFlags(o, mc->getType());
            return o;
        }
        if (auto* c = dyn_cast<CallExpr>(e))
        {
            o["k"] = "call";
            auto* fd = c->getDirectCallee();
            if (fd)
            {
                enqueue(fd);
                o["callee"] = fnId(fd);
                o["name"] = qualName(fd);
                if (fd->isNoReturn())
                    o["noreturn"] = true;
                auto r = reachJson(fd);
                if (!r.empty())
                    o["reaches"] = std::move(r);
                // static member called through an object
            }
            else
            {
                const Expr* base = nullptr;
                auto n = unresolvedName(c->getCallee(), base);
                o["callee"] = nullptr;
                if (!n.empty())
                {
                    o["name"] = n;
                    o["dep"] = true;
                    const Expr* ce = strip(c->getCallee());
                    // a call that cannot be resolved before instantiation (a type-dependent argument) but whose every candidate is
                    // [[noreturn]] - raise(..., args_.size(), ...) inside a template - does not return in any instantiation
                    if (auto* ul2 = dyn_cast<UnresolvedLookupExpr>(ce))
                    {
                        bool any = false, all = true;
                        for (auto* d : ul2->decls())
                        {
                            const NamedDecl* u = d->getUnderlyingDecl();
                            const FunctionDecl* cand = nullptr;
                            if (auto* ft = dyn_cast<FunctionTemplateDecl>(u))
                                cand = ft->getTemplatedDecl();
                            else
                                cand = dyn_cast<FunctionDecl>(u);
                            if (!cand)
                            {
                                all = false;
                                continue;
                            }
                            any = true;
                            if (!cand->isNoReturn())
                                all = false;
                        }
                        if (any && all)
                            o["noreturn"] = true;
                    }
                    if (isa<UnresolvedMemberExpr>(ce) || isa<CXXDependentScopeMemberExpr>(ce))
                    {
                        o["this"] = base ? JE(base) : json::Value(json::Object{ { "k", "this" } });
                        if (auto* dm2 = dyn_cast<CXXDependentScopeMemberExpr>(ce))
                            o["arrow"] = base ? dm2->isArrow() : true;
                        else if (auto* um2 = dyn_cast<UnresolvedMemberExpr>(ce))
                            o["arrow"] = base ? um2->isArrow() : true;
                    }
                }
                else
                {
                    o["name"] = "?";
                    o["fn"] = JE(c->getCallee());
                }
            }
            std::vector<const Expr*> args(c->arg_begin(), c->arg_end());
            o["args"] = JArgs(args);
            o["ln"] = ln;
            typeFlags(o, c->getType());
            // a call that is a constant expression (a constexpr helper computing the length of a literal, ...): its value
            if (fd && fd->isConstexpr() && !c->isValueDependent() && !c->isTypeDependent() && !c->getType().isNull() &&
                c->getType()->isIntegralOrEnumerationType())
            {
                Expr::EvalResult er;
                if (c->EvaluateAsInt(er, ctx, Expr::SE_NoSideEffects) && er.Val.isInt())
                    o["cval"] = (int64_t)er.Val.getInt().getExtValue();
            }
            return o;
        }
        if (auto* ce = dyn_cast<CXXConstructExpr>(e))
        {
            auto* cd = ce->getConstructor();
            // copy/move elision wrappers: a construct whose only argument is already a
            // prvalue of the same type is transparent
            o["k"] = "construct";
            enqueue(cd);
            o["ctor"] = fnId(cd);
            o["name"] = qualName(cd->getParent());
            if (cd->isCopyConstructor())
                o["copy"] = true;
            if (cd->isMoveConstructor())
                o["move"] = true;
            if (ce->isElidable())
                o["elidable"] = true;
            if (isa<CXXTemporaryObjectExpr>(ce))
                o["temp"] = true;
            if (ce->isListInitialization())
                o["list"] = true;
            if (ce->isStdInitListInitialization())
                o["std_init_list"] = true;
            auto r = reachJson(cd);
            if (!r.empty())
                o["reaches"] = std::move(r);
            std::vector<const Expr*> args(ce->arg_begin(), ce->arg_end());
            o["args"] = JArgs(args);
            o["ln"] = ln;
            o["type"] = ty(ce->getType());
            return o;
        }
        if (auto* uc = dyn_cast<CXXUnresolvedConstructExpr>(e))
        {
            o["k"] = "construct";
            o["ctor"] = nullptr;
            o["dep"] = true;
            if (uc->isListInitialization())
                o["list"] = true;
            o["name"] = ty(uc->getTypeAsWritten());
            o["type"] = ty(uc->getTypeAsWritten());
            std::vector<const Expr*> args(uc->arg_begin(), uc->arg_end());
            o["args"] = JArgs(args);
            o["ln"] = ln;
            return o;
        }
        if (auto* bo = dyn_cast<BinaryOperator>(e))
        {
            o["k"] = "bin";
            o["op"] = bo->getOpcodeStr().str();
            o["l"] = JE(bo->getLHS());
            o["r"] = JE(bo->getRHS());
            if (bo->isLogicalOp())
                o["sc"] = true;
            o["ln"] = ln;
            typeFlags(o, bo->getType());
            return o;
        }
        if (auto* uo = dyn_cast<UnaryOperator>(e))
        {
            o["k"] = "un";
            std::string op = UnaryOperator::getOpcodeStr(uo->getOpcode()).str();
            if (uo->isIncrementDecrementOp())
                op += uo->isPrefix() ? "pre" : "post";
            o["op"] = op;
            o["e"] = JE(uo->getSubExpr());
            o["ln"] = ln;
            return o;
        }
        if (auto* as = dyn_cast<ArraySubscriptExpr>(e))
        {
            o["k"] = "subscript";
            // syntactic operands (for dependent types clang cannot tell which one is the pointer)
            o["base"] = JE(as->getLHS());
            o["idx"] = JE(as->getRHS());
            o["ln"] = ln;
            typeFlags(o, as->getType());
            return o;
        }
        if (auto* ec = dyn_cast<ExplicitCastExpr>(e))
        {
            o["k"] = "cast";
            const char* ck = "c";
            if (isa<CXXStaticCastExpr>(ec))
                ck = "static";
            else if (isa<CXXConstCastExpr>(ec))
                ck = "const";
            else if (isa<CXXReinterpretCastExpr>(ec))
                ck = "reinterpret";
            else if (isa<CXXDynamicCastExpr>(ec))
                ck = "dynamic";
            else if (isa<CXXFunctionalCastExpr>(ec))
                ck = "functional";
            o["ck"] = ck;
            o["to"] = ty(ec->getTypeAsWritten());
            o["e"] = JE(ec->getSubExpr());
            o["ln"] = ln;
            return o;
        }
        if (auto* ne = dyn_cast<CXXNewExpr>(e))
        {
            o["k"] = "new";
            o["type"] = ty(ne->getAllocatedType());
            o["array"] = ne->isArray();
            json::Array pl;
            for (unsigned i = 0; i < ne->getNumPlacementArgs(); ++i)
                pl.push_back(JE(ne->getPlacementArg(i)));
            o["placement"] = std::move(pl);
            o["init"] = ne->getInitializer() ? JE(ne->getInitializer()) : json::Value(nullptr);
            o["ln"] = ln;
            return o;
        }
        if (auto* de = dyn_cast<CXXDeleteExpr>(e))
        {
            o["k"] = "delete";
            o["array"] = de->isArrayForm();
            o["e"] = JE(de->getArgument());
            o["etype"] = ty(de->getDestroyedType());
            o["ln"] = ln;
            return o;
        }
        if (auto* le = dyn_cast<LambdaExpr>(e))
        {
            o["k"] = "lambda";
            auto* op = le->getCallOperator();
            json::Array ids;
            if (auto* tpl = le->getDependentCallOperator())
            {
                // generic lambda: the pattern and every specialisation
                enqueue(tpl->getTemplatedDecl());
                o["id"] = fnId(tpl->getTemplatedDecl());
                for (auto* sp : tpl->specializations())
                {
                    enqueue(sp);
                    ids.push_back(fnId(sp));
                }
                o["generic"] = true;
            }
            else if (op)
            {
                enqueue(op);
                o["id"] = fnId(op);
                ids.push_back(fnId(op));
            }
            o["bodies"] = std::move(ids);
            json::Array caps;
            for (auto& c : le->captures())
            {
                json::Object co;
                if (c.capturesThis())
                    co["this"] = true;
                else if (c.capturesVariable())
                {
                    co["var"] = c.getCapturedVar()->getNameAsString();
                    co["byref"] = c.getCaptureKind() == LCK_ByRef;
                }
                caps.push_back(std::move(co));
            }
            o["captures"] = std::move(caps);
            o["ln"] = ln;
            return o;
        }
        if (auto* te = dyn_cast<CXXThrowExpr>(e))
        {
            o["k"] = "throw";
            o["e"] = te->getSubExpr() ? JE(te->getSubExpr()) : json::Value(nullptr);
            if (te->getSubExpr())
                o["type"] = ty(te->getSubExpr()->getType());
            o["ln"] = ln;
            return o;
        }
        if (auto* co = dyn_cast<AbstractConditionalOperator>(e))
        {
            o["k"] = "cond";
            o["c"] = JE(co->getCond());
            o["t"] = JE(co->getTrueExpr());
            o["f"] = JE(co->getFalseExpr());
            o["sc"] = true;
            o["ln"] = ln;
            return o;
        }
        if (auto* il = dyn_cast<InitListExpr>(e))
        {
            o["k"] = "init_list";
            json::Array a;
            for (auto* x : il->inits())
                a.push_back(JE(x));
            o["elems"] = std::move(a);
            o["type"] = ty(il->getType());
            o["ln"] = ln;
            return o;
        }
        if (auto* si = dyn_cast<CXXStdInitializerListExpr>(e))
        {
            o["k"] = "std_init_list";
            o["e"] = JE(si->getSubExpr());
            return o;
        }
        if (auto* pe = dyn_cast<PackExpansionExpr>(e))
        {
            o["k"] = "pack";
            o["e"] = JE(pe->getPattern());
            return o;
        }
        if (auto* pl = dyn_cast<ParenListExpr>(e))
        {
            o["k"] = "paren_list";
            json::Array a;
            for (auto* x : const_cast<ParenListExpr*>(pl)->exprs())
                a.push_back(JE(x));
            o["elems"] = std::move(a);
            return o;
        }
        if (isa<CXXScalarValueInitExpr>(e) || isa<ImplicitValueInitExpr>(e))
        {
            o["k"] = "value_init";
            o["type"] = ty(e->getType());
            return o;
        }
        if (auto* ue = dyn_cast<UnaryExprOrTypeTraitExpr>(e))
        {
            o["k"] = "sizeof";
            o["text"] = text(ue);
            return o;
        }
        if (isa<SizeOfPackExpr>(e))
        {
            o["k"] = "sizeof_pack";
            o["text"] = text(e);
            return o;
        }
        if (auto* ci = dyn_cast<CXXInheritedCtorInitExpr>(e))
        {
            o["k"] = "construct";
            enqueue(ci->getConstructor());
            o["ctor"] = fnId(ci->getConstructor());
            o["name"] = qualName(ci->getConstructor()->getParent());
            o["inherited"] = true;
            o["args"] = json::Array();
            o["type"] = ty(ci->getType());
            o["ln"] = ln;
            return o;
        }
        if (auto* pd = dyn_cast<CXXPseudoDestructorExpr>(e))
        {
            o["k"] = "pseudo_dtor";
            o["e"] = JE(pd->getBase());
            return o;
        }
        if (auto* fe = dyn_cast<CXXFoldExpr>(e))
        {
            o["k"] = "fold";
            o["op"] = BinaryOperator::getOpcodeStr(fe->getOperator()).str();
            o["l"] = fe->getLHS() ? JE(fe->getLHS()) : json::Value(nullptr);
            o["r"] = fe->getRHS() ? JE(fe->getRHS()) : json::Value(nullptr);
            return o;
        }
        o["k"] = "other";
        o["cls"] = e->getStmtClassName();
        json::Array kids;
        for (auto* ch : e->children())
            kids.push_back(J(ch));
        o["kids"] = std::move(kids);
        o["text"] = text(e);
        o["ln"] = ln;
        return o;
    }

    // -------------------------------------------------------------------- CFG

    // descendants of s that are evaluated as part of evaluating s *in the same basic block*:
    // operands of &&, ||, ?: live in other blocks; lambda bodies are not evaluated at all.
    void collectSameBlock(const Stmt* s, std::set<const Stmt*>& out)
    {
        if (!s)
            return;
        for (auto* ch : s->children())
        {
            if (!ch)
                continue;
            out.insert(ch);
            if (isa<LambdaExpr>(ch))
                continue;
            collectSameBlock(ch, out);
        }
    }

    const std::set<const Stmt*>* curBlockStmts = nullptr;

    const Expr* effectiveCond(const Expr* c)
    {
        // the leaf that decides the branch in *this* block; when the logical expression itself
        // is an element of this block (join block), the branch is on its whole value
        while (c)
        {
            c = strip(c);
            auto* bo = dyn_cast_or_null<BinaryOperator>(c);
            if (bo && bo->isLogicalOp())
            {
                if (curBlockStmts && curBlockStmts->count(bo))
                    break;
                c = bo->getRHS();
                continue;
            }
            break;
        }
        return c;
    }

    json::Value termJson(const CFGBlock* b)
    {
        json::Object t;
        const Stmt* ts = b->getTerminatorStmt();
        if (!ts)
        {
            t["kind"] = "none";
            return t;
        }
        const Expr* cond = nullptr;
        const Expr* full = nullptr;
        const char* kind = "other";
        if (auto* is = dyn_cast<IfStmt>(ts))
        {
            kind = "if";
            full = is->getCond();
            cond = effectiveCond(full);
        }
        else if (auto* fs = dyn_cast<ForStmt>(ts))
        {
            kind = "for";
            full = fs->getCond();
            cond = effectiveCond(full);
        }
        else if (auto* ws = dyn_cast<WhileStmt>(ts))
        {
            kind = "while";
            full = ws->getCond();
            cond = effectiveCond(full);
        }
        else if (auto* ds = dyn_cast<DoStmt>(ts))
        {
            kind = "do";
            full = ds->getCond();
            cond = effectiveCond(full);
        }
        else if (auto* rf = dyn_cast<CXXForRangeStmt>(ts))
        {
            kind = "range_for";
            full = rf->getCond();
            cond = effectiveCond(full);
        }
        else if (auto* bo = dyn_cast<BinaryOperator>(ts))
        {
            kind = bo->getOpcode() == BO_LAnd ? "and" : (bo->getOpcode() == BO_LOr ? "or" : "bin");
            full = bo->getLHS();
            cond = effectiveCond(full);
        }
        else if (auto* co = dyn_cast<AbstractConditionalOperator>(ts))
        {
            kind = "cond";
            full = co->getCond();
            cond = effectiveCond(full);
        }
        else if (auto* ss = dyn_cast<SwitchStmt>(ts))
        {
            kind = "switch";
            full = ss->getCond();
            cond = full;
        }
        else if (isa<BreakStmt>(ts))
            kind = "break";
        else if (isa<ContinueStmt>(ts))
            kind = "continue";
        else if (isa<GotoStmt>(ts))
            kind = "goto";
        else if (isa<CXXTryStmt>(ts))
            kind = "try";
        t["kind"] = kind;
        t["cond"] = cond ? JE(cond) : json::Value(nullptr);
        if (full && strip(full) != cond)
            t["full"] = JE(full);
        t["ln"] = lineOf(ts->getBeginLoc());
        return t;
    }

    json::Value cfgJson(const FunctionDecl* fd, bool& ok)
    {
        CFG::BuildOptions bo;
        bo.setAllAlwaysAdd();
        bo.AddImplicitDtors = true;
        bo.AddInitializers = true;
        bo.AddTemporaryDtors = false;
        bo.AddEHEdges = false;
        bo.PruneTriviallyFalseEdges = true;
        bo.AddCXXDefaultInitExprInCtors = true;
        std::unique_ptr<CFG> cfg = CFG::buildCFG(fd, fd->getBody(), &ctx, bo);
        json::Object out;
        if (!cfg)
        {
            ok = false;
            return nullptr;
        }
        ok = true;
        out["entry"] = (int64_t)cfg->getEntry().getBlockID();
        out["exit"] = (int64_t)cfg->getExit().getBlockID();
        json::Array blocks;
        for (const CFGBlock* b : *cfg)
        {
            json::Object jb;
            jb["id"] = (int64_t)b->getBlockID();
            if (b->hasNoReturnElement())
                jb["noreturn"] = true;
            // label (case / default)
            if (const Stmt* lab = b->getLabel())
            {
                if (auto* cs = dyn_cast<CaseStmt>(lab))
                {
                    json::Object l;
                    l["case"] = JE(cs->getLHS());
                    jb["label"] = std::move(l);
                }
                else if (isa<DefaultStmt>(lab))
                    jb["label"] = json::Object{ { "default", true } };
            }
            // roots
            std::vector<const Stmt*> stmts;
            for (auto& el : *b)
                if (auto cs = el.getAs<CFGStmt>())
                    stmts.push_back(cs->getStmt());
            // a statement is a root unless another element with a different stripped identity contains it;
            // among wrappers of one expression (casts, cleanups, temporaries) the outermost (last) is kept
            auto keyOf = [&](const Stmt* s) -> const Stmt* {
                if (auto* ex = dyn_cast<Expr>(s))
                    return strip(ex);
                return s;
            };
            std::set<const Stmt*> covered;
            for (auto* u : stmts)
            {
                if (isa<CXXCatchStmt>(u))
                    continue; // the head of a handler block: its body's statements are elements of their own
                std::set<const Stmt*> d;
                collectSameBlock(u, d);
                for (auto* x : d)
                    if (keyOf(x) != keyOf(u))
                        covered.insert(x);
            }
            std::map<const Stmt*, const Stmt*> lastOfKey;
            for (auto* u : stmts)
                if (!covered.count(u))
                    lastOfKey[keyOf(u)] = u;
            // constructor initialisers appear both as CFGStmt and as CFGInitializer: keep the latter
            std::set<const Stmt*> initExprs;
            for (auto& el : *b)
                if (auto ci = el.getAs<CFGInitializer>())
                    if (auto* ie = ci->getInitializer()->getInit())
                    {
                        initExprs.insert(ie);
                        initExprs.insert(strip(ie));
                    }
            json::Array elems;
            for (auto& el : *b)
            {
                if (auto cs = el.getAs<CFGStmt>())
                {
                    const Stmt* s = cs->getStmt();
                    if (covered.count(s))
                        continue;
                    if (lastOfKey[keyOf(s)] != s)
                        continue;
                    if (initExprs.count(s))
                        continue;
                    if (auto* ex0 = dyn_cast<Expr>(s))
                        if (initExprs.count(strip(ex0)))
                            continue;
                    json::Object je;
                    je["kind"] = "stmt";
                    je["ln"] = lineOf(s->getBeginLoc());
                    je["expr"] = J(s);
                    je["text"] = text(s, 160);
                    elems.push_back(std::move(je));
                }
                else if (auto ci = el.getAs<CFGInitializer>())
                {
                    const CXXCtorInitializer* init = ci->getInitializer();
                    json::Object je;
                    je["kind"] = "init";
                    if (init->isAnyMemberInitializer())
                        je["field"] = qualName(init->getAnyMember());
                    else if (init->isDelegatingInitializer())
                        je["delegating"] = true;
                    else if (init->isBaseInitializer())
                        je["base"] = ty(QualType(init->getBaseClass(), 0));
                    je["written"] = init->isWritten();
                    je["expr"] = JE(init->getInit());
                    je["ln"] = lineOf(init->getSourceLocation());
                    elems.push_back(std::move(je));
                }
                else if (auto ad = el.getAs<CFGAutomaticObjDtor>())
                {
                    json::Object je;
                    je["kind"] = "auto_dtor";
                    je["var"] = ad->getVarDecl()->getNameAsString();
                    je["type"] = ty(ad->getVarDecl()->getType());
                    if (auto* dd = ad->getDestructorDecl(ctx))
                    {
                        enqueue(dd);
                        je["callee"] = fnId(dd);
                    }
                    elems.push_back(std::move(je));
                }
                else if (auto md = el.getAs<CFGMemberDtor>())
                {
                    json::Object je;
                    je["kind"] = "member_dtor";
                    je["field"] = qualName(md->getFieldDecl());
                    elems.push_back(std::move(je));
                }
                else if (auto bd = el.getAs<CFGBaseDtor>())
                {
                    json::Object je;
                    je["kind"] = "base_dtor";
                    je["base"] = ty(bd->getBaseSpecifier()->getType());
                    elems.push_back(std::move(je));
                }
            }
            jb["elems"] = std::move(elems);
            std::set<const Stmt*> blockStmts;
            for (auto* s : stmts)
            {
                blockStmts.insert(s);
                if (auto* ex = dyn_cast<Expr>(s))
                    blockStmts.insert(strip(ex));
            }
            curBlockStmts = &blockStmts;
            jb["term"] = termJson(b);
            curBlockStmts = nullptr;
            json::Array succ;
            for (auto it = b->succ_begin(); it != b->succ_end(); ++it)
            {
                json::Object s;
                const CFGBlock* r = it->getReachableBlock();
                const CFGBlock* p = it->getPossiblyUnreachableBlock();
                if (r)
                    s["to"] = (int64_t)r->getBlockID();
                else if (p)
                {
                    s["to"] = (int64_t)p->getBlockID();
                    s["unreachable"] = true;
                }
                else
                    s["to"] = nullptr;
                succ.push_back(std::move(s));
            }
            jb["succ"] = std::move(succ);
            blocks.push_back(std::move(jb));
        }
        out["blocks"] = std::move(blocks);
        return out;
    }

    // -------------------------------------------------------------- functions

    void emitFunction(const FunctionDecl* fd)
    {
        json::Object f;
        f["id"] = fnId(fd);
        f["qual"] = qualName(fd);
        f["name"] = fd->getNameAsString();
        f["file"] = fileOf(fd->getLocation());
        f["line"] = lineOf(fd->getLocation());
        f["endline"] = lineOf(fd->getEndLoc());
        json::Array params;
        for (auto* p : fd->parameters())
        {
            json::Object po;
            po["name"] = p->getNameAsString();
            typeFlags(po, p->getType());
            if (isForwardingRef(fd, p->getType()))
                po["fwd"] = true;
            if (p->getType()->isReferenceType())
            {
                po["ref"] = p->getType()->isRValueReferenceType() ? "rvalue" : "lvalue";
                if (p->getType().getNonReferenceType().isConstQualified())
                    po["constref"] = true;
            }
            // the default argument is evaluated at every call that leaves the parameter out: part of the function's behaviour
            if (p->hasDefaultArg() && !p->hasUnparsedDefaultArg() && !p->hasUninstantiatedDefaultArg())
                if (const Expr* de = p->getDefaultArg())
                    po["default"] = JE(de);
            params.push_back(std::move(po));
        }
        f["params"] = std::move(params);
        f["ret"] = ty(fd->getReturnType());
        const char* kind = "function";
        auto* md = dyn_cast<CXXMethodDecl>(fd);
        if (isa<CXXConstructorDecl>(fd))
            kind = "ctor";
        else if (isa<CXXDestructorDecl>(fd))
            kind = "dtor";
        else if (md && md->getParent()->isLambda())
            kind = "lambda";
        else if (isa<CXXConversionDecl>(fd))
            kind = "conversion";
        else if (fd->isOverloadedOperator())
            kind = "operator";
        else if (md)
            kind = "method";
        f["kind"] = kind;
        if (fd->isOverloadedOperator())
            f["op"] = getOperatorSpelling(fd->getOverloadedOperator());
        json::Object flags;
        if (md)
        {
            f["class"] = className(md->getParent());
            if (md->isVirtual())
                flags["virtual"] = true;
            json::Array ov;
            for (auto* o : md->overridden_methods())
                ov.push_back(fnId(o));
            if (!ov.empty())
                flags["overrides"] = std::move(ov);
            if (md->isConst())
                flags["const"] = true;
            if (md->isStatic())
                flags["static"] = true;
            switch (md->getAccess())
            {
            case AS_public:
                flags["access"] = "public";
                break;
            case AS_protected:
                flags["access"] = "protected";
                break;
            case AS_private:
                flags["access"] = "private";
                break;
            default:
                break;
            }
            if (auto* cd = dyn_cast<CXXConstructorDecl>(md))
            {
                if (cd->isCopyConstructor())
                    flags["copy_ctor"] = true;
                if (cd->isMoveConstructor())
                    flags["move_ctor"] = true;
                if (cd->isDefaultConstructor())
                    flags["default_ctor"] = true;
                if (cd->isDelegatingConstructor())
                    flags["delegating"] = true;
            }
            if (md->isCopyAssignmentOperator())
                flags["copy_assign"] = true;
            if (md->isMoveAssignmentOperator())
                flags["move_assign"] = true;
        }
        if (fd->isDefaulted())
            flags["defaulted"] = true;
        if (fd->isImplicit())
            flags["implicit"] = true;
        if (fd->isNoReturn())
            flags["noreturn"] = true;
        if (auto* fpt = fd->getType()->getAs<FunctionProtoType>())
        {
            // a written noexcept / noexcept(true): an exception that reaches the boundary ends in std::terminate
            auto est = fpt->getExceptionSpecType();
            if (est == EST_BasicNoexcept || est == EST_NoexceptTrue || est == EST_DynamicNone)
                flags["noexcept"] = true;
        }
        if (fd->isConstexpr())
            flags["constexpr"] = true;
        bool dependent = fd->isDependentContext();
        if (dependent)
            flags["pattern"] = true;
        if (fd->isTemplateInstantiation())
        {
            flags["instantiation"] = true;
            if (auto* pat = fd->getTemplateInstantiationPattern())
                flags["instantiation_of"] = fnId(pat);
        }
        if (auto* a = fd->getTemplateSpecializationArgs())
            flags["template_args"] = targs(a);
        if (fd->getFriendObjectKind() != Decl::FOK_None)
            flags["friend"] = true;
        f["flags"] = std::move(flags);
        bool ok = false;
        f["cfg"] = cfgJson(fd, ok);
        if (!ok)
            f["cfg_failed"] = true;
        functions.push_back(std::move(f));
    }

    // ---------------------------------------------------------------- classes

    json::Object specialOf(const CXXMethodDecl* m)
    {
        json::Object o;
        o["id"] = fnId(m);
        o["deleted"] = m->isDeleted();
        o["defaulted"] = m->isDefaulted();
        o["user_provided"] = m->isUserProvided();
        o["implicit"] = m->isImplicit();
        o["ret"] = ty(m->getReturnType());
        switch (m->getAccess())
        {
        case AS_public:
            o["access"] = "public";
            break;
        case AS_protected:
            o["access"] = "protected";
            break;
        case AS_private:
            o["access"] = "private";
            break;
        default:
            break;
        }
        return o;
    }

    void emitClass(const CXXRecordDecl* rd)
    {
        if (!rd->isCompleteDefinition() || rd->isLambda())
            return;
        if (!seenClasses.insert(rd).second)
            return;
        json::Object c;
        c["name"] = className(rd);
        c["file"] = fileOf(rd->getLocation());
        c["line"] = lineOf(rd->getLocation());
        if (rd->isDependentContext())
            c["pattern"] = true;
        if (auto* sp = dyn_cast<ClassTemplateSpecializationDecl>(rd))
        {
            c["template_args"] = targs(&sp->getTemplateArgs());
            c["template"] = qualName(sp->getSpecializedTemplate());
        }
        json::Array bases;
        for (auto& b : rd->bases())
        {
            json::Object bo;
            bo["type"] = ty(b.getType());
            if (auto* brd = b.getType()->getAsCXXRecordDecl())
                bo["name"] = className(brd);
            bo["virtual"] = b.isVirtual();
            bo["access"] = b.getAccessSpecifier() == AS_public ?
                               "public" :
                               (b.getAccessSpecifier() == AS_protected ? "protected" : "private");
            bases.push_back(std::move(bo));
        }
        c["bases"] = std::move(bases);
        json::Array fields;
        for (auto* d : rd->decls())
        {
            if (auto* fd = dyn_cast<FieldDecl>(d))
            {
                json::Object fo;
                fo["name"] = fd->getNameAsString();
                fo["qual"] = qualName(fd);
                typeFlags(fo, fd->getType());
                fo["ctype"] = ty(fd->getType().getCanonicalType());
                fo["ref"] = fd->getType()->isReferenceType();
                fo["ptr"] = fd->getType()->isPointerType();
                fo["static"] = false;
                fo["init"] = fd->hasInClassInitializer() && fd->getInClassInitializer() ?
                                 JE(fd->getInClassInitializer()) :
                                 json::Value(nullptr);
                fields.push_back(std::move(fo));
            }
            else if (auto* vd = dyn_cast<VarDecl>(d))
            {
                if (vd->isStaticDataMember())
                {
                    json::Object fo;
                    fo["name"] = vd->getNameAsString();
                    fo["qual"] = qualName(vd);
                    typeFlags(fo, vd->getType());
                    fo["static"] = true;
                    if (vd->getTLSKind() != VarDecl::TLS_None)
                        fo["thread_local"] = true;
                    {
                        const VarDecl* def = nullptr;
                        const Expr* init = vd->getAnyInitializer(def);
                        fo["init"] = init ? JE(init) : json::Value(nullptr);
                    }
                    fo["ref"] = false;
                    fo["ptr"] = vd->getType()->isPointerType();
                    fields.push_back(std::move(fo));
                }
            }
        }
        c["fields"] = std::move(fields);
        json::Object sp;
        json::Array ctors, methods;
        for (auto* m : rd->methods())
        {
            if (auto* cd = dyn_cast<CXXConstructorDecl>(m))
            {
                if (cd->isCopyConstructor())
                    sp["copy_ctor"] = specialOf(cd);
                else if (cd->isMoveConstructor())
                    sp["move_ctor"] = specialOf(cd);
                else if (cd->isDefaultConstructor())
                    sp["default_ctor"] = specialOf(cd);
                ctors.push_back(fnId(cd));
            }
            else if (isa<CXXDestructorDecl>(m))
                sp["dtor"] = specialOf(m);
            else if (m->isCopyAssignmentOperator())
                sp["copy_assign"] = specialOf(m);
            else if (m->isMoveAssignmentOperator())
                sp["move_assign"] = specialOf(m);
            json::Object mo;
            mo["id"] = fnId(m);
            mo["name"] = m->getNameAsString();
            mo["virtual"] = m->isVirtual();
            mo["pure"] = m->isPure();
            mo["static"] = m->isStatic();
            mo["implicit"] = m->isImplicit();
            mo["deleted"] = m->isDeleted();
            mo["ret"] = ty(m->getReturnType());
            json::Array ov;
            for (auto* o : m->overridden_methods())
                ov.push_back(fnId(o));
            mo["overrides"] = std::move(ov);
            methods.push_back(std::move(mo));
        }
        // friend functions defined in the class body
        json::Object needs;
        needs["move_ctor"] = rd->needsImplicitMoveConstructor();
        needs["move_assign"] = rd->needsImplicitMoveAssignment();
        needs["copy_ctor"] = rd->needsImplicitCopyConstructor();
        needs["copy_assign"] = rd->needsImplicitCopyAssignment();
        c["needs_implicit"] = std::move(needs);
        c["user_declared"] = json::Object{
            { "copy_ctor", rd->hasUserDeclaredCopyConstructor() },
            { "move_ctor", rd->hasUserDeclaredMoveConstructor() },
            { "copy_assign", rd->hasUserDeclaredCopyAssignment() },
            { "move_assign", rd->hasUserDeclaredMoveAssignment() },
            { "dtor", rd->hasUserDeclaredDestructor() },
        };
        c["special"] = std::move(sp);
        c["ctors"] = std::move(ctors);
        c["methods"] = std::move(methods);
        classes.push_back(std::move(c));
    }
};

class Visitor : public RecursiveASTVisitor<Visitor>
{
public:
    Visitor(Extractor& ex) : ex(ex)
    {
    }
    bool shouldVisitTemplateInstantiations() const
    {
        return true;
    }
    bool shouldVisitImplicitCode() const
    {
        return true;
    }
    bool VisitFunctionDecl(FunctionDecl* fd)
    {
        if (fd->isThisDeclarationADefinition() && fd->hasBody())
            ex.enqueue(fd);
        return true;
    }
    bool VisitCXXRecordDecl(CXXRecordDecl* rd)
    {
        if (rd->isThisDeclarationADefinition() && ex.inRoots(rd))
            ex.emitClass(rd);
        return true;
    }
    Extractor& ex;
};

class Consumer : public ASTConsumer
{
public:
    void HandleTranslationUnit(ASTContext& ctx) override
    {
        if (ctx.getDiagnostics().hasErrorOccurred())
        {
            llvm::errs() << "nitro-facts: compile errors, no facts written\n";
            return;
        }
        Extractor ex(ctx);
        Visitor v(ex);
        v.TraverseDecl(ctx.getTranslationUnitDecl());
        // worklist: serialising a body may discover lambdas / callees in the roots
        for (size_t i = 0; i < ex.work.size(); ++i)
            ex.emitFunction(ex.work[i]);
        json::Object root;
        auto& sm = ctx.getSourceManager();
        root["unit"] = ex.fileOf(sm.getLocForStartOfFile(sm.getMainFileID()));
        json::Array files;
        for (auto it = sm.fileinfo_begin(); it != sm.fileinfo_end(); ++it)
        {
            llvm::SmallString<256> p(it->first->getName());
            sm.getFileManager().makeAbsolutePath(p);
            llvm::sys::path::remove_dots(p, true);
            std::string f(p.str());
            for (auto& r : g_roots)
                if (f.compare(0, r.size(), r) == 0)
                {
                    files.push_back(f);
                    break;
                }
        }
        root["files"] = std::move(files);
        root["functions"] = std::move(ex.functions);
        root["classes"] = std::move(ex.classes);
        root["size_t_bits"] = (int64_t)ctx.getTypeSize(ctx.getSizeType());
        std::error_code ec;
        llvm::raw_fd_ostream os(g_out, ec);
        if (ec)
        {
            llvm::errs() << "nitro-facts: cannot write " << g_out << "\n";
            return;
        }
        os << json::Value(std::move(root));
        os << "\n";
    }
};

class Action : public ASTFrontendAction
{
public:
    std::unique_ptr<ASTConsumer> CreateASTConsumer(CompilerInstance&, llvm::StringRef) override
    {
        return std::make_unique<Consumer>();
    }
};

} // namespace

int main(int argc, const char** argv)
{
    std::vector<std::string> sources;
    std::vector<std::string> flags;
    int i = 1;
    for (; i < argc; ++i)
    {
        std::string a = argv[i];
        if (a == "--")
        {
            ++i;
            break;
        }
        if (a == "--root" && i + 1 < argc)
            g_roots.push_back(argv[++i]);
        else if (a == "-o" && i + 1 < argc)
            g_out = argv[++i];
        else
            sources.push_back(a);
    }
    for (; i < argc; ++i)
        flags.push_back(argv[i]);
    if (sources.size() != 1 || g_out.empty() || g_roots.empty())
    {
        llvm::errs() << "usage: nitro-facts --root DIR... -o OUT.json SOURCE -- FLAGS\n";
        return 2;
    }
    clang::tooling::FixedCompilationDatabase db(".", flags);
    clang::tooling::ClangTool tool(db, sources);
    int rc = tool.run(clang::tooling::newFrontendActionFactory<Action>().get());
    if (rc != 0)
    {
        std::remove(g_out.c_str());
        return 1;
    }
    return 0;
}
