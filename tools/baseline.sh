#!/bin/sh
# hooks.baseline_off_cmd: build /repo (no verification guard exists; nothing to switch off) in a scratch dir and run the suite
set -e
T=$(mktemp -d /tmp/nitro-baseline-XXXXXX)
trap 'rm -rf "$T"' EXIT
cmake -G Ninja -S /repo -B "$T" >/dev/null
cmake --build "$T" >/dev/null
ctest --test-dir "$T" -j8 --timeout 900 || true
