#!/bin/sh
# Re-confirm every seeded change against /repo's *current HEAD* in one scratch worktree (removed afterwards):
#   with the change: builds, ctest pass/fail set equals the baseline, the demonstration FAILS; without: it PASSES.
# Results: seeded/<id>/confirm_head.txt
WT=/tmp/wt-confirm
git -C /repo worktree remove --force $WT 2>/dev/null
git -C /repo worktree add -q --detach $WT HEAD || exit 9
cmake -G Ninja -S $WT -B $WT/_build >/dev/null 2>&1 && cmake --build $WT/_build >/dev/null 2>&1
ctest --test-dir $WT/_build -j8 2>&1 | grep -E "^ *[0-9]+/[0-9]+ Test" | sed 's/ *[0-9.]* sec//; s/^ *[0-9]*\/[0-9]* //' | sort > /tmp/confirm_base.txt
HEADREV=$(git -C /repo rev-parse --short HEAD)
for D in ${SEEDS:-/verif/seeded/C*-*}; do
  S=$(basename $D); P=$D/patch.diff; [ -f $D/patch.rebased.diff ] && P=$D/patch.rebased.diff
  OUT=$D/confirm_head.txt
  ( cd $WT && git checkout -q -- . && git clean -fdq -e _build
    run_demo() {
      if [ -f $D/demo.sh ]; then ( NITRO_INC=$WT/include sh $D/demo.sh >/dev/null 2>&1 ); return $?; fi
      FL=-O1; [ -f $D/demo.flags ] && FL=$(cat $D/demo.flags)
      g++ -std=gnu++17 $FL -I$WT/include $D/demo.cpp $WT/_build/libnitro-options.a $WT/_build/libnitro-env.a -ldl -pthread -o /tmp/demo_$S 2>/dev/null || return 99
      ( cd $D && timeout 120 /tmp/demo_$S >/dev/null 2>&1 ); R=$?; rm -f /tmp/demo_$S; return $R
    }
    run_demo; WO=$?
    if ! git apply $P 2>/dev/null; then echo "head=$HEADREV patch=$(basename $P) RESULT apply-failed" > $OUT; exit 0; fi
    B=$(cmake --build _build 2>&1 | grep -cE "error:|FAILED:")
    ctest --test-dir _build -j8 2>&1 | grep -E "^ *[0-9]+/[0-9]+ Test" | sed 's/ *[0-9.]* sec//; s/^ *[0-9]*\/[0-9]* //' | sort > /tmp/confirm_with.txt
    SAME=no; cmp -s /tmp/confirm_base.txt /tmp/confirm_with.txt && SAME=yes
    run_demo; W=$?
    git checkout -q -- . ; git clean -fdq -e _build; cmake --build _build >/dev/null 2>&1
    echo "head=$HEADREV patch=$(basename $P) RESULT build_errors=$B suite_same_as_baseline=$SAME demo_with_change=$W demo_without_change=$WO" > $OUT )
done
git -C /repo worktree remove --force $WT; git -C /repo worktree prune
cat /verif/seeded/C*/confirm_head.txt | sed 's/.*RESULT //' | sort | uniq -c
