#!/bin/sh
# import_seed12.sh <Cxx> [srcprefix=/tmp/seed12] [wtprefix=/tmp/wt12] [tagA=AA] [tagB=AB]
# copy <srcprefix>-<Cxx>/{A,B}.* (files and directories) to seeded/<Cxx>-<tag>/ without the "A."/"B." prefix and make a
# demo.sh self-contained: the worktree is ${NITRO_INC%/include}, sources sit next to the script, build output goes to a temp dir
P=$1; SRC=${2:-/tmp/seed12}; WTP=${3:-/tmp/wt12}; LA=${4:-AA}; LB=${5:-AB}
for x in A B; do t=$LA; [ $x = B ] && t=$LB; d=/verif/seeded/$P-$t
  [ -f $SRC-$P/$x.patch.diff ] || { echo "no $x for $P"; continue; }
  mkdir -p $d
  for f in $SRC-$P/$x.*; do b=$(basename $f); b=${b#$x.}
    [ -f "$f" ] && [ "$b" = demo ] && continue
    case "$b" in demo.bin|*.o|demo.build|confirm.txt|ctest_*.txt) continue;; esac
    [ -f "$f" ] && [ -x "$f" ] && [ "${b%.*}" = "$b" ] && continue
    rm -rf $d/$b; cp -r $f $d/$b
  done
  find $d -name '*.o' -delete
  if [ -f $d/demo.sh ]; then
    sed -i -e "s#$SRC-$P/$x\.#\$HERE/#g" -e "s#$SRC-$P#\$OUTD#g" -e "s#$WTP-$P#\$WT#g" \
           -e "s#\$(dirname \"\$0\")/$x\.#\$HERE/#g" -e "s#\"\$here/$x\.#\"\$HERE/#g" $d/demo.sh
    awk 'NR==1{print; print "HERE=$(cd \"$(dirname \"$0\")\" && pwd); WT=${NITRO_INC%/include}; OUTD=$(mktemp -d); trap \"rm -rf $OUTD\" EXIT"; next} {print}' $d/demo.sh > $d/demo.sh.n && mv $d/demo.sh.n $d/demo.sh
    sed -i 's/^exec //' $d/demo.sh
    echo "NOTE: $d/demo.sh rewritten - review"
  fi
  head -12 $d/demo.cpp 2>/dev/null | grep -q -- "-O2" && echo "-O2" > $d/demo.flags
done
true
