#!/bin/sh
# import_seed.sh <Cxx>: copy the round-3 outputs /tmp/seed3-<Cxx>/{A,B}.* to seeded/<Cxx>-E and seeded/<Cxx>-F
P=$1
for x in A B; do t=E; [ $x = B ] && t=F; d=/verif/seeded/$P-$t; mkdir -p $d
  for f in /tmp/seed3-$P/$x.*; do b=$(basename $f); b=${b#$x.}; [ -x "$f" ] && [ "${b%.*}" = "$b" ] && continue; [ "$b" = "demo" ] && continue; cp $f $d/$b; done
  [ -f $d/demo.sh ] && echo "NOTE: $d/demo.sh needs to be made self-contained"
  grep -l -- "-O2" $d/demo.cpp >/dev/null 2>&1 && head -12 $d/demo.cpp | grep -q -- "-O2" && echo "-O2" > $d/demo.flags
done
ls /verif/seeded/$P-E /verif/seeded/$P-F
