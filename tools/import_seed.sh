#!/bin/sh
# import_seed.sh <Cxx> [srcprefix=/tmp/seed3] [letterA=E] [letterB=F]: copy <srcprefix>-<Cxx>/{A,B}.* to seeded/<Cxx>-<letter>
P=$1; SRC=${2:-/tmp/seed3}; LA=${3:-E}; LB=${4:-F}
for x in A B; do t=$LA; [ $x = B ] && t=$LB; d=/verif/seeded/$P-$t; mkdir -p $d
  for f in $SRC-$P/$x.*; do b=$(basename $f); b=${b#$x.}; [ -x "$f" ] && [ "${b%.*}" = "$b" ] && continue; [ "$b" = "demo" ] && continue; cp $f $d/$b; done
  [ -f $d/demo.sh ] && echo "NOTE: $d/demo.sh needs to be made self-contained"
  head -12 $d/demo.cpp 2>/dev/null | grep -q -- "-O2" && echo "-O2" > $d/demo.flags
done
true
