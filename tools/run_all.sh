#!/bin/sh
# run every registered quick (or thorough: TIER=thorough) check on /repo's current tree and validate the evidence files
cd "$(dirname "$0")/.."
TIER=${TIER:-quick}
RC=0
for P in $(ls rules | grep -E '^C[0-9]+\.py$' | sed 's/\.py//'); do
  OUT=$(./check $P --tier $TIER 2>&1); R=$?
  echo "$OUT" | tail -1 | sed "s/^/[exit $R] /"
  echo "$OUT" | grep -E "^KNOWN-FINDING|^VIOLATION|^ANALYSIS-BROKEN" | cut -c1-200
  [ $R -ne 0 ] && RC=1
done
python3-vt - <<'PY'
import json, jsonschema, glob
sch=json.load(open('/root/.vp/EVIDENCE.schema.json'))
for p in sorted(glob.glob('evidence/C*.json')):
    jsonschema.validate(json.load(open(p)), sch)
jsonschema.validate(json.load(open('MANIFEST.json')), json.load(open('/root/.vp/MANIFEST.schema.json')))
print("evidence + manifest valid")
PY
exit $RC
