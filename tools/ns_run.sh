#!/bin/sh
# ns_run.sh <log> <command...>: run a sweep on private copies of /repo (a clone of HEAD) and /verif (a snapshot), mounted
# over /repo and /verif in a private mount namespace, so that it can patch "/repo" while work continues on the real trees.
# Results that the command writes under /verif (seeded/SWEEP.json, ...) are left in /tmp/ns-verif for the caller to copy.
LOG=$1; shift
rm -rf /tmp/ns-verif /tmp/ns-repo
mkdir -p /tmp/ns-verif /tmp/ns-repo
rsync -a --exclude build/cache /verif/ /tmp/ns-verif/
mkdir -p /tmp/ns-verif/build/cache
git clone -q /repo /tmp/ns-repo
unshare -m sh -c "mount --bind /tmp/ns-repo /repo && mount --bind /tmp/ns-verif /verif && cd /verif && $* > $LOG 2>&1; echo DONE >> $LOG"
