#!/bin/sh
# setup_cmd: build the fact extractor from files on disk only (offline) and byte-compile the analyses.
set -e
cd "$(dirname "$0")/.."
mkdir -p build
if [ ! -x build/nitro-facts ] || [ tools/nitro-facts.cc -nt build/nitro-facts ]; then
    clang++ $(llvm-config-14 --cxxflags) -std=c++17 -fno-rtti -O1 tools/nitro-facts.cc -o build/nitro-facts.tmp \
        /usr/lib/llvm-14/lib/libclang-cpp.so.14 /usr/lib/llvm-14/lib/libLLVM-14.so
    mv build/nitro-facts.tmp build/nitro-facts
fi
python3 -m compileall -q sa rules check 2>/dev/null || true
echo "setup ok: $(ls -la build/nitro-facts | awk '{print $5}') bytes"
