#!/bin/sh
# confirm_seed.sh <Cxx> <A|B>: confirm a seeded change in its scratch worktree /tmp/wt-Cxx:
#  with change: builds, ctest same as baseline (only Nitro.dl_test fails), demo FAILS; without: demo PASSES.
P=$1; X=$2; WT=/tmp/wt-$P; SD=/tmp/seed-$P; OUT=$SD/$X.confirm.txt
exec >$OUT 2>&1
cd $WT || exit 9
git checkout -q -- . ; git clean -fdq -e _build
git apply $SD/$X.patch.diff || { echo "RESULT apply-failed"; exit 1; }
cmake --build _build 2>&1 | grep -E "error|FAILED" | head
ctest --test-dir _build -j8 2>&1 | grep -E "tests passed|Failed|FAILED" > $SD/$X.ctest_with.txt; cat $SD/$X.ctest_with.txt
build_demo() {
  if [ -f $SD/$X.demo.sh ]; then return 0; fi
  g++ -std=gnu++17 -O1 -I$WT/include $SD/$X.demo.cpp $WT/_build/libnitro-options.a $WT/_build/libnitro-env.a -ldl -pthread -o /tmp/demo-$P-$X 2>&1 | grep -E "error" | head -5
}
run_demo() {
  if [ -f $SD/$X.demo.sh ]; then (cd $SD && sh ./$X.demo.sh) >/dev/null 2>&1; return $?; fi
  (cd $SD && timeout 120 /tmp/demo-$P-$X) >/dev/null 2>&1; return $?
}
build_demo; run_demo; W=$?
git checkout -q -- . ; git clean -fdq -e _build
cmake --build _build 2>&1 | grep -E "error|FAILED" | head
ctest --test-dir _build -j8 2>&1 | grep -E "tests passed|Failed|FAILED" > $SD/$X.ctest_without.txt
build_demo; run_demo; WO=$?
rm -f /tmp/demo-$P-$X
SAME=no; cmp -s $SD/$X.ctest_with.txt $SD/$X.ctest_without.txt && SAME=yes
echo "RESULT demo_with=$W demo_without=$WO suite_same=$SAME"
