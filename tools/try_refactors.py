#!/usr/bin/env python3
"""Apply each behaviour-preserving refactoring to /repo, run ALL checks, undo. Any exit 1 is a false alarm, exit 2 an
unrecognised idiom. usage: tools/try_refactors.py [--checks C01,C02] refactors/*.patch.diff"""
import os, subprocess, sys, json
HERE = os.path.dirname(os.path.dirname(os.path.abspath(__file__)))
def sh(cmd, **kw): return subprocess.run(cmd, shell=True, stdout=subprocess.PIPE, stderr=subprocess.STDOUT, text=True, **kw)
props = sorted(f[:-3] for f in os.listdir(os.path.join(HERE, "rules")) if f.startswith("C") and f.endswith(".py"))
out = {}
argv = sys.argv[1:]
if argv and argv[0] == "--checks":
    props = argv[1].split(","); argv = argv[2:]
for patch in argv:
    patch = os.path.abspath(patch)
    name = "/".join(patch.split("/")[-2:])
    if sh("git -C /repo status --porcelain --untracked-files=no").stdout.strip():
        print("repo dirty"); sys.exit(2)
    r = sh("git -C /repo apply %s" % patch)
    if r.returncode != 0:
        print("%-28s DOES NOT APPLY" % name); sh("git -C /repo reset -q --hard HEAD"); continue
    bad = []
    for p in props:
        rr = sh("./check %s" % p, cwd=HERE)
        if rr.returncode != 0:
            lines = [l for l in rr.stdout.splitlines() if ": R" in l and not l.startswith("VIOLATION")][:6]
            bad.append((p, rr.returncode, lines))
    sh("git -C /repo checkout -q -- ."); sh("git -C /repo clean -fdq -e _build")
    out[name] = bad
    print("%-28s %s" % (name, "silent" if not bad else "; ".join("%s exit %d" % (p, rc) for p, rc, _ in bad)))
    for p, rc, lines in bad:
        for l in lines: print("      " + l[:260])
json.dump(out, open(os.path.join(HERE, "seeded", "REFACTOR_SWEEP.json"), "a"), indent=1)
